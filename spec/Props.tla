-------------------------------- MODULE Props --------------------------------
(* The listed properties as predicates over one state (s) or one step        *)
(* (s --ev--> t).  The same operators are used as invariants / action        *)
(* properties of the bounded models (mc/) and as L1 monitors on the states   *)
(* observed from the real application (Trace.tla).                           *)
EXTENDS Chain

PoCount(s) == Len(s.ent.po)
\* orders that exist in both states (ids never disappear: checked by IdsSequential + PoNeverVanish)
Common(s, t) == 1..Min(PoCount(s), PoCount(t))

------------------------------------------------------------------------------
(* C03 *)
AllowedMove(a, b) == a = b \/ <<a, b>> \in {<<"raised", "accepted">>, <<"raised", "rejected">>, <<"accepted", "completed">>}
StatusMonotone(s, t) == \A i \in Common(s, t) : AllowedMove(s.ent.po[i].st, t.ent.po[i].st)
TerminalFrozen(s, t) == \A i \in Common(s, t) : s.ent.po[i].st \in {"rejected", "completed"} => t.ent.po[i] = s.ent.po[i]
PoNeverVanish(s, t) == PoCount(t) >= PoCount(s)
IsPrefixSeq(a, b) == Len(a) <= Len(b) /\ \A i \in DOMAIN a : a[i] = b[i]
PoFieldsImmutable(s, t) == \A i \in Common(s, t) :
   LET a == s.ent.po[i]  b == t.ent.po[i] IN
   a.id = b.id /\ a.pur = b.pur /\ a.amt = b.amt /\ a.den = b.den /\ a.rt = b.rt /\ IsPrefixSeq(a.dec, b.dec)
StatusOnlyInBeginBlock(s, t, ev) == ev.a # "BeginBlock" => \A i \in Common(s, t) : s.ent.po[i].st = t.ent.po[i].st
\* an order accepted when a block begins is completed by that BeginBlock (one block after acceptance, never earlier)
OneBlockDelay(s, t, ev) == ev.a = "BeginBlock" /\ ~t.halted =>
   \A i \in Common(s, t) : s.ent.po[i].st = "accepted" => t.ent.po[i].st = "completed"
NewlyCompleted(s, t, a) == SeqSum([ i \in Common(s, t) |->
   IF s.ent.po[i].st # "completed" /\ t.ent.po[i].st = "completed" /\ t.ent.po[i].pur = a THEN t.ent.po[i].amt ELSE 0 ])
CreditExactlyOnce(s, t, ev) == \A a \in DOMAIN s.ent.locked :
   IF ev.a = "BeginBlock" THEN t.ent.locked[a] - s.ent.locked[a] = NewlyCompleted(s, t, a)
   ELSE t.ent.locked[a] <= s.ent.locked[a]
RaiseOnlyWhitelisted(s, t) == \A i \in (DOMAIN t.ent.po) \ (DOMAIN s.ent.po) :
   LET o == t.ent.po[i] IN o.pur \in DOMAIN s.ent.wl /\ s.ent.wl[o.pur] /\ o.st = "raised" /\ o.dec = <<>>
DecideOnlyCurrentSignerOnce(s, t) == \A i \in Common(s, t) :
   \A j \in (DOMAIN t.ent.po[i].dec) \ (DOMAIN s.ent.po[i].dec) :
      LET d == t.ent.po[i].dec[j] IN
      /\ Contains(s.ent.p.signers, d.s)
      /\ ~\E k \in DOMAIN s.ent.po[i].dec : s.ent.po[i].dec[k].s = d.s
      /\ s.ent.po[i].st = "raised"
C03State(s) == QueuesMatchStatus(s) /\ OncePerSigner(s) /\ IdsSequential(s)
C03Step(s, t, ev) ==
  /\ StatusMonotone(s, t) /\ TerminalFrozen(s, t) /\ PoNeverVanish(s, t) /\ PoFieldsImmutable(s, t)
  /\ StatusOnlyInBeginBlock(s, t, ev) /\ OneBlockDelay(s, t, ev) /\ CreditExactlyOnce(s, t, ev)
  /\ RaiseOnlyWhitelisted(s, t) /\ DecideOnlyCurrentSignerOnce(s, t)

------------------------------------------------------------------------------
(* C04 *)
C04State(s) == Books(s) /\ LockedPlusSpent(s)
TopLevelRegistry(ev) == ev.a = "DeliverTx" /\ IsAnyRegistryTx(ev.msgs)
EscrowOnlyByCompletionOrUnlock(s, t, ev) == \A d \in Denoms :
   LET delta == t.bal["ent"][d] - s.bal["ent"][d] IN
   IF ev.a = "BeginBlock" THEN delta >= 0
   ELSE IF TopLevelRegistry(ev) THEN delta <= 0
   ELSE delta = 0
C04Step(s, t, ev) == EscrowOnlyByCompletionOrUnlock(s, t, ev)

------------------------------------------------------------------------------
(* C02 *)
CompletedNow(s, t, d) == SeqSum([ i \in Common(s, t) |->
   IF s.ent.po[i].st # "completed" /\ t.ent.po[i].st = "completed" /\ t.ent.po[i].den = d THEN t.ent.po[i].amt ELSE 0 ])
MintOnlyByCompletion(s, t, ev) == \A d \in Denoms :
   IF ev.a = "BeginBlock" THEN t.supply[d] - s.supply[d] = CompletedNow(s, t, d)
   ELSE t.supply[d] = s.supply[d]
C02Step(s, t, ev) == MintOnlyByCompletion(s, t, ev)
C02StateModel(s) == \A d \in Denoms : SumBalances(s, d) = s.supply[d]

------------------------------------------------------------------------------
(* C05 *)
LockedDropsOnlyByFeeTx(s, t, ev) == \A a \in DOMAIN s.ent.locked :
   t.ent.locked[a] < s.ent.locked[a] =>
      /\ TopLevelRegistry(ev)
      /\ a = TxOf(ev).payer
      /\ s.ent.locked[a] - t.ent.locked[a] = Min(FeeOf(TxOf(ev).fee, s.ent.p.denom), s.ent.locked[a])
      /\ t.ent.spent[a] - s.ent.spent[a] = s.ent.locked[a] - t.ent.locked[a]
SpentOnlyWithUnlock(s, t) == \A a \in DOMAIN s.ent.locked :
   t.ent.spent[a] - s.ent.spent[a] = Max(s.ent.locked[a] - t.ent.locked[a], 0)
C05Step(s, t, ev) == LockedDropsOnlyByFeeTx(s, t, ev) /\ (ev.a # "BeginBlock" => SpentOnlyWithUnlock(s, t))

\* completing a purchase order never increases anybody's spendable balance (observed spendable: s.spend)
CompletionDoesNotRaiseSpendable(s, t, ev) == ev.a = "BeginBlock" =>
   \A a \in DOMAIN s.spend : \A d \in Denoms : t.spend[a][d] <= s.spend[a][d]
\* the one known way this fails (DESIGN Appendix A, H-VestingUnlock): the purchaser is a vesting account and the
\* bank books the enterprise lock as delegated vesting, releasing exactly min(still-vesting, completed amount)
RaisedSpendable(s, t) == { <<a, d>> \in (DOMAIN s.spend) \X Denoms : t.spend[a][d] > s.spend[a][d] }
OnlyVestingPurchaserRise(s, t, ev) == ev.a = "BeginBlock" /\ RaisedSpendable(s, t) # {} /\
   \A p \in RaisedSpendable(s, t) :
      /\ p[1] \in DOMAIN s.vest
      /\ t.spend[p[1]][p[2]] - s.spend[p[1]][p[2]] = Min(VestLocked(s, p[1], p[2]), NewlyCompleted(s, t, p[1]))
\* the spendable balance the bank reports is the balance minus what vesting still locks
SpendableConsistent(o) == \A a \in DOMAIN o.spend : \A d \in Denoms : o.spend[a][d] = Spendable(o, a, d)

------------------------------------------------------------------------------
(* C17: the enterprise supply queries (o.q is recorded at block boundaries) *)
\* the eFUND that is really locked: the per-account records (the module's running total is a derived figure, C04)
LockedTotal(o) == SumFn(o.ent.locked) + o.ent.extraLocked
LockedOf(o, d) == IF d = o.ent.p.denom THEN LockedTotal(o) ELSE 0
SupplyOfOk(o) == \A d \in Denoms : o.q.supplyOf[d] = o.supply[d] - LockedOf(o, d)
StakeSupplyUnchanged(o) == o.q.supplyOfStake = o.q.bankStake
\* every denomination the bank knows that is not one of the model's (the staking coin, foreign coins, an IBC voucher): reported unchanged
ForeignSupplyOfOk(o) == "supplyOfAll" \in DOMAIN o.q => \A d \in DOMAIN o.q.supplyOfAll : d \notin Denoms => o.q.supplyOfAll[d] = o.q.bank[d]
EntSupplyOk(o) ==
  LET e == o.q.entSupply IN
  /\ e.denom = o.ent.p.denom
  /\ e.total = o.supply[e.denom] /\ e.locked = LockedTotal(o) /\ e.unlocked = e.total - e.locked
  /\ e.unlocked >= 0 /\ e.locked >= 0
  /\ o.q.totalUnlocked.amt = e.unlocked
PageOk(o, pg) ==
  /\ pg.ok
  /\ pg.denoms = o.q.denoms                       \* every denomination exactly once, in key order
  /\ \A i \in DOMAIN pg.denoms :
        pg.amts[i] = (IF pg.denoms[i] \in Denoms THEN o.supply[pg.denoms[i]] - LockedOf(o, pg.denoms[i]) ELSE o.q.bank[pg.denoms[i]])
PagesOk(o) == \A k \in DOMAIN o.q.pages : PageOk(o, o.q.pages[k])

------------------------------------------------------------------------------
(* C07 / C08 / C09 on the registries *)
ChCommon(s, t, k) == 1..Min(Len(s[k].ch), Len(t[k].ch))
\* records are kept in ascending key order: binary search (a registration can hold tens of thousands of records)
RECURSIVE KeyIdx(_, _, _, _)
KeyIdx(recs, h, lo, hi) ==
  IF lo >= hi THEN lo
  ELSE LET mid == (lo + hi) \div 2 IN
       IF recs[mid].h < h THEN KeyIdx(recs, h, mid + 1, hi) ELSE KeyIdx(recs, h, lo, mid)
RecByKey(recs, h) == LET i == KeyIdx(recs, h, 1, Len(recs)) IN
                     IF recs[i].h = h THEN recs[i] ELSE recs[CHOOSE j \in DOMAIN recs : recs[j].h = h]
\* no later transaction alters or replaces a record that is still in state
NoRewrite(s, t) == \A k \in {"wrk", "bcn"} : \A i \in ChCommon(s, t, k) :
   \A h \in Keys(s[k].ch[i].recs) \cap Keys(t[k].ch[i].recs) :
      RecByKey(s[k].ch[i].recs, h) = RecByKey(t[k].ch[i].recs, h)
\* record messages the transaction carries for registration id of module k (through wrappers)
RecMsgsFor(ev, k, id) ==
  IF ev.a # "DeliverTx" THEN 0
  ELSE Len(SelectSeq(Flatten(ev.msgs), LAMBDA m : m.t = (IF k = "wrk" THEN "WRec" ELSE "BRec") /\ m.id = id))
\* records only ever disappear from the low end and appear at the high end; the oldest are pruned
\* one per arriving record and only when the registration is full
AppendOnly(s, t, ev) == \A k \in {"wrk", "bcn"} : \A i \in ChCommon(s, t, k) :
   LET a == s[k].ch[i]  b == t[k].ch[i]
       added == Keys(b.recs) \ Keys(a.recs)
       removed == Keys(a.recs) \ Keys(b.recs)
   IN /\ \A h \in added : h > a.last
      /\ \A h \in removed : \A g \in Keys(b.recs) : h < g
      /\ b.last >= a.last
      /\ (k = "bcn" => Cardinality(added) <= b.last - a.last)
      /\ Cardinality(added) <= RecMsgsFor(ev, k, a.id)
      /\ Cardinality(removed) <= RecMsgsFor(ev, k, a.id)
      /\ (removed # {} => Len(a.recs) + RecMsgsFor(ev, k, a.id) > a.limit)
C07Step(s, t, ev) == NoRewrite(s, t) /\ AppendOnly(s, t, ev)
C07Hist(s) == HistoryOk(s, "wrk") /\ HistoryOk(s, "bcn")

\* storage purchases the transaction carries for registration id of module k (through wrappers)
BuysFor(ev, k, id, owner) ==
  IF ev.a # "DeliverTx" THEN 0
  ELSE LET ops == SelectSeq(Flatten(ev.msgs), LAMBDA m : m.t = (IF k = "wrk" THEN "WBuy" ELSE "BBuy") /\ m.id = id /\ m.owner = owner)
       IN SeqSum([j \in DOMAIN ops |-> ops[j].n])
LimitChangesOnlyByOwnerPurchase(s, t, ev) == \A k \in {"wrk", "bcn"} : \A i \in ChCommon(s, t, k) :
   LET a == s[k].ch[i]  b == t[k].ch[i] IN
   a.limit # b.limit => /\ b.limit > a.limit
                        /\ b.limit - a.limit = BuysFor(ev, k, a.id, a.owner)
                        /\ b.limit <= s[k].p.max
LimitStartsAtDefault(s, t) == \A k \in {"wrk", "bcn"} :
   \A i \in (DOMAIN t[k].ch) \ (DOMAIN s[k].ch) : t[k].ch[i].limit = s[k].p.def /\ t[k].ch[i].recs = <<>>
C08State(s) == RegistryOk(s, "wrk") /\ RegistryOk(s, "bcn")
C08Step(s, t, ev) == LimitChangesOnlyByOwnerPurchase(s, t, ev) /\ LimitStartsAtDefault(s, t)

MetaFields == {"id", "owner", "moniker", "name", "reg"}
MetaImmutable(s, t) == \A k \in {"wrk", "bcn"} :
   /\ Len(t[k].ch) >= Len(s[k].ch)
   /\ \A i \in ChCommon(s, t, k) : \A f \in MetaFields \cup (IF k = "wrk" THEN {"genesis", "type"} ELSE {}) :
         s[k].ch[i][f] = t[k].ch[i][f]
\* a registration changes only if the transaction carries a message of its owner aimed at it
TouchedBy(ev, k, id, owner) ==
  ev.a = "DeliverTx" /\ \E j \in DOMAIN Flatten(ev.msgs) :
     LET m == Flatten(ev.msgs)[j] IN IsRegMsg(k, m) /\ m.t \notin {"WReg", "BReg"} /\ m.id = id /\ m.owner = owner
OnlyOwnerWrites(s, t, ev) == \A k \in {"wrk", "bcn"} : \A i \in ChCommon(s, t, k) :
   LET a == s[k].ch[i]  b == t[k].ch[i] IN
   (a.recs # b.recs \/ a.limit # b.limit \/ a.last # b.last \/ a.num # b.num \/ a.low # b.low) => TouchedBy(ev, k, a.id, a.owner)
NewRegsAreSequential(s, t, ev) == \A k \in {"wrk", "bcn"} :
   \A i \in (DOMAIN t[k].ch) \ (DOMAIN s[k].ch) : t[k].ch[i].id = s[k].next + (i - Len(s[k].ch) - 1)
C09Step(s, t, ev) == MetaImmutable(s, t) /\ OnlyOwnerWrites(s, t, ev) /\ NewRegsAreSequential(s, t, ev)

------------------------------------------------------------------------------
(* C10 / C11 / C12 on streams *)
HasStreamMsg(ev) == ev.a = "DeliverTx" /\ \E j \in DOMAIN Flatten(ev.msgs) :
                      Flatten(ev.msgs)[j].t \in {"SCreate", "SClaim", "STopUp", "SRate", "SCancel"}
EscrowOnlyByStreamOps(s, t, ev) == \A d \in Denoms : t.bal["stream"][d] # s.bal["stream"][d] => HasStreamMsg(ev)
C10State(s) == EscrowBacked(s)
C10Step(s, t, ev) == EscrowOnlyByStreamOps(s, t, ev)
C11State(s) == Sustained(s)

------------------------------------------------------------------------------
(* C06: classification of an admission the ideal rule refuses, by the one deviation of the code that explains it *)
NestedRegistryOps(msgs) == \E k \in {"wrk", "bcn"} : Len(AllOps(msgs, k)) # Len(TopOps(msgs, k))
MixedTopLevel(msgs) == TopOps(msgs, "wrk") # <<>> /\ TopOps(msgs, "bcn") # <<>>
AdmissionKind(s, ev) ==
  IF NestedRegistryOps(ev.msgs) THEN "AdmittedNestedOpsNotCharged"
  ELSE IF MixedTopLevel(ev.msgs) THEN "AdmittedMixedModulesPerModuleSum"
  ELSE "AdmittedAgainstFeeRule"

------------------------------------------------------------------------------
(* C13 *)
\* a transaction not signed by the parties its messages belong to changes nothing at all
ModState(s) == <<s.ent.po, s.ent.rq, s.ent.aq, s.ent.wl, s.ent.locked, s.ent.spent, s.ent.p, s.wrk.p, s.wrk.ch, s.bcn.p, s.bcn.ch, s.str.p, s.str.s, s.bal, s.supply, s.grants, s.fgrants>>
WronglySigned(ev) == ev.a = "DeliverTx" /\ ~SigsOk(TxOf(ev))
UnsignedChangesNothing(s, t, ev) == WronglySigned(ev) => ModState(s) = ModState(t)
C13Step(s, t, ev) == UnsignedChangesNothing(s, t, ev)
\* the party a message names is not the party the operation belongs to in state s (messages reached through wrappers included)
NotEntitled(s, m) ==
  CASE m.t \in {"Decide", "Whitelist"} -> ~IsSigner(s, m.signer)
    [] m.t = "Raise" -> ~(m.pur \in DOMAIN s.ent.wl /\ s.ent.wl[m.pur])
    [] m.t \in {"WRec", "WBuy"} -> ChExists(s, "wrk", m.id) /\ ChOf(s, "wrk", m.id).owner # m.owner
    [] m.t \in {"BRec", "BBuy"} -> ChExists(s, "bcn", m.id) /\ ChOf(s, "bcn", m.id).owner # m.owner
    [] m.t \in {"STopUp", "SRate", "SCancel", "SClaim"} -> ~HasStream(s, m.receiver, m.sender)
    [] m.t = "UpdParams" -> m.authority # "gov"
    [] m.t = "GExec" -> m.member \notin GroupMembers
    [] OTHER -> FALSE
\* within one transaction earlier messages may create the entitlement (register then record): only single-message
\* transactions and wrappers of one message are judged here; the refinement check covers the rest
\* (a group proposal's transaction succeeds whether or not its messages did: judged by UnentitledGroupExec)
SoleMsg(ev) == IF Len(Flatten(ev.msgs)) = 1 /\ ~\E i \in DOMAIN ev.msgs : ev.msgs[i].t = "GExec" THEN Flatten(ev.msgs) ELSE <<>>
UnentitledAccepted(s, ev, ok) == ev.a = "DeliverTx" /\ ok /\ SoleMsg(ev) # <<>> /\ NotEntitled(s, SoleMsg(ev)[1])
\* a group proposal accepted from a non-member, or one whose only message - reported as executed - was not the policy account's to send
UnentitledGroupExec(s, ev, res) ==
  /\ ev.a = "DeliverTx" /\ res.ok /\ Len(ev.msgs) = 1 /\ ev.msgs[1].t = "GExec"
  /\ \/ ev.msgs[1].member \notin GroupMembers
     \/ /\ Len(ev.msgs[1].msgs) = 1 /\ Len(res.outs) = 1 /\ "executed" \in DOMAIN res.outs[1] /\ res.outs[1].executed
        /\ NotEntitled(s, ev.msgs[1].msgs[1])

------------------------------------------------------------------------------
(* C14 *)
NotHalted(s) == ~s.halted
\* the one known way to halt the chain (DESIGN 0.3): governance changed the enterprise denomination while the
\* locked-eFUND books (kept in the old denomination) or queued orders exist
EntDenomChanged(s) == s.ent.p.denom # s.ent.totLockedDen \/ \E i \in DOMAIN s.ent.po : s.ent.po[i].den # s.ent.p.denom
\* what a failed transaction may still change: fee, sequence, eFUND unlock (the pre-execution stage)
MsgState(s) == <<s.ent.po, s.ent.rq, s.ent.aq, s.ent.wl, s.ent.next, s.ent.p, s.wrk.p, s.wrk.ch, s.wrk.next,
                 s.bcn.p, s.bcn.ch, s.bcn.next, s.str.p, s.str.s, s.supply, s.bal["stream"], s.grants, s.fgrants>>
FailedTxKeepsState(s, t, ev, ok) == (ev.a = "DeliverTx" /\ ~ok) => MsgState(s) = MsgState(t)
\* digests of the modules' whole stores (observed states only): a failed transaction leaves the registry and stream stores
\* byte-identical, and the enterprise store too unless eFUND was unlocked before execution; read-only calls change none
FailedTxKeepsStores(s, t, ev, ok) ==
  ("dig" \in DOMAIN s /\ "dig" \in DOMAIN t /\ ev.a = "DeliverTx" /\ ~ok) =>
     /\ s.dig.wrk = t.dig.wrk /\ s.dig.bcn = t.dig.bcn /\ s.dig.str = t.dig.str
     /\ (s.ent.spent = t.ent.spent => s.dig.ent = t.dig.ent)
ReadOnlyKeepsStores(s, t, ev) ==
  ("dig" \in DOMAIN s /\ "dig" \in DOMAIN t /\ ev.a \in {"CheckTx", "Recheck", "Commit", "Crash", "ListQueries"}) => s.dig = t.dig
QueriesAndChecksReadOnly(s, t, ev) == ev.a \in {"CheckTx", "Recheck", "Commit", "Crash", "ListQueries"} => ModState(s) = ModState(t)

------------------------------------------------------------------------------
(* C16 *)
StoredParamsValid(s) == /\ EntParamsValid(s, s.ent.p) /\ RegParamsValid(s.wrk.p) /\ RegParamsValid(s.bcn.p) /\ StrParamsValid(s.str.p)
=============================================================================
