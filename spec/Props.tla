-------------------------------- MODULE Props --------------------------------
(* The listed properties as predicates over one state (s) or one step        *)
(* (s --ev--> t).  The same operators are used as invariants / action        *)
(* properties of the bounded models (mc/) and as L1 monitors on the states   *)
(* observed from the real application (Trace.tla).                           *)
EXTENDS Chain

PoCount(s) == Len(s.ent.po)
\* orders that exist in both states (ids never disappear: checked by IdsSequential + PoNeverVanish)
Common(s, t) == 1..Min(PoCount(s), PoCount(t))

------------------------------------------------------------------------------
(* C03 *)
AllowedMove(a, b) == a = b \/ <<a, b>> \in {<<"raised", "accepted">>, <<"raised", "rejected">>, <<"accepted", "completed">>}
StatusMonotone(s, t) == \A i \in Common(s, t) : AllowedMove(s.ent.po[i].st, t.ent.po[i].st)
TerminalFrozen(s, t) == \A i \in Common(s, t) : s.ent.po[i].st \in {"rejected", "completed"} => t.ent.po[i] = s.ent.po[i]
PoNeverVanish(s, t) == PoCount(t) >= PoCount(s)
IsPrefixSeq(a, b) == Len(a) <= Len(b) /\ \A i \in DOMAIN a : a[i] = b[i]
PoFieldsImmutable(s, t) == \A i \in Common(s, t) :
   LET a == s.ent.po[i]  b == t.ent.po[i] IN
   a.id = b.id /\ a.pur = b.pur /\ a.amt = b.amt /\ a.den = b.den /\ a.rt = b.rt /\ IsPrefixSeq(a.dec, b.dec)
StatusOnlyInBeginBlock(s, t, ev) == ev.a # "BeginBlock" => \A i \in Common(s, t) : s.ent.po[i].st = t.ent.po[i].st
\* an order accepted when a block begins is completed by that BeginBlock (one block after acceptance, never earlier)
OneBlockDelay(s, t, ev) == ev.a = "BeginBlock" /\ ~t.halted =>
   \A i \in Common(s, t) : s.ent.po[i].st = "accepted" => t.ent.po[i].st = "completed"
NewlyCompleted(s, t, a) == SeqSum([ i \in Common(s, t) |->
   IF s.ent.po[i].st # "completed" /\ t.ent.po[i].st = "completed" /\ t.ent.po[i].pur = a THEN t.ent.po[i].amt ELSE 0 ])
CreditExactlyOnce(s, t, ev) == \A a \in DOMAIN s.ent.locked :
   IF ev.a = "BeginBlock" THEN t.ent.locked[a] - s.ent.locked[a] = NewlyCompleted(s, t, a)
   ELSE t.ent.locked[a] <= s.ent.locked[a]
RaiseOnlyWhitelisted(s, t) == \A i \in (DOMAIN t.ent.po) \ (DOMAIN s.ent.po) :
   LET o == t.ent.po[i] IN o.pur \in DOMAIN s.ent.wl /\ s.ent.wl[o.pur] /\ o.st = "raised" /\ o.dec = <<>>
DecideOnlyCurrentSignerOnce(s, t) == \A i \in Common(s, t) :
   \A j \in (DOMAIN t.ent.po[i].dec) \ (DOMAIN s.ent.po[i].dec) :
      LET d == t.ent.po[i].dec[j] IN
      /\ Contains(s.ent.p.signers, d.s)
      /\ ~\E k \in DOMAIN s.ent.po[i].dec : s.ent.po[i].dec[k].s = d.s
      /\ s.ent.po[i].st = "raised"
C03State(s) == QueuesMatchStatus(s) /\ OncePerSigner(s) /\ IdsSequential(s)
C03Step(s, t, ev) ==
  /\ StatusMonotone(s, t) /\ TerminalFrozen(s, t) /\ PoNeverVanish(s, t) /\ PoFieldsImmutable(s, t)
  /\ StatusOnlyInBeginBlock(s, t, ev) /\ OneBlockDelay(s, t, ev) /\ CreditExactlyOnce(s, t, ev)
  /\ RaiseOnlyWhitelisted(s, t) /\ DecideOnlyCurrentSignerOnce(s, t)

------------------------------------------------------------------------------
(* C04 *)
C04State(s) == Books(s) /\ LockedPlusSpent(s)
TopLevelRegistry(ev) == ev.a = "DeliverTx" /\ IsAnyRegistryTx(ev.msgs)
EscrowOnlyByCompletionOrUnlock(s, t, ev) == \A d \in Denoms :
   LET delta == t.bal["ent"][d] - s.bal["ent"][d] IN
   IF ev.a = "BeginBlock" THEN delta >= 0
   ELSE IF TopLevelRegistry(ev) THEN delta <= 0
   ELSE delta = 0
C04Step(s, t, ev) == EscrowOnlyByCompletionOrUnlock(s, t, ev)

------------------------------------------------------------------------------
(* C02 *)
CompletedNow(s, t, d) == SeqSum([ i \in Common(s, t) |->
   IF s.ent.po[i].st # "completed" /\ t.ent.po[i].st = "completed" /\ t.ent.po[i].den = d THEN t.ent.po[i].amt ELSE 0 ])
MintOnlyByCompletion(s, t, ev) == \A d \in Denoms :
   IF ev.a = "BeginBlock" THEN t.supply[d] - s.supply[d] = CompletedNow(s, t, d)
   ELSE t.supply[d] = s.supply[d]
C02Step(s, t, ev) == MintOnlyByCompletion(s, t, ev)
C02StateModel(s) == \A d \in Denoms : SumBalances(s, d) = s.supply[d]

------------------------------------------------------------------------------
(* C05 *)
LockedDropsOnlyByFeeTx(s, t, ev) == \A a \in DOMAIN s.ent.locked :
   t.ent.locked[a] < s.ent.locked[a] =>
      /\ TopLevelRegistry(ev)
      /\ a = TxOf(ev).payer
      /\ s.ent.locked[a] - t.ent.locked[a] = Min(FeeOf(TxOf(ev).fee, s.ent.p.denom), s.ent.locked[a])
      /\ t.ent.spent[a] - s.ent.spent[a] = s.ent.locked[a] - t.ent.locked[a]
SpentOnlyWithUnlock(s, t) == \A a \in DOMAIN s.ent.locked :
   t.ent.spent[a] - s.ent.spent[a] = Max(s.ent.locked[a] - t.ent.locked[a], 0)
C05Step(s, t, ev) == LockedDropsOnlyByFeeTx(s, t, ev) /\ (ev.a # "BeginBlock" => SpentOnlyWithUnlock(s, t))

------------------------------------------------------------------------------
(* C14 *)
NotHalted(s) == ~s.halted
=============================================================================
