-------------------------------- MODULE Chain --------------------------------
(* The application as CometBFT drives it: one operator per ABCI call.        *)
(*   Step(st, ev)  with ev the model-level event {a: action, ...arguments}   *)
(* DeliverTx = stateless checks ; ante chain (all or nothing) ; messages     *)
(* (all or nothing, ante effects stay).  See DESIGN Appendix B for where     *)
(* each rejection happens in the code.                                       *)
(*                                                                           *)
(* st.aux (kept by the trace/MC spec, not observable through queries):       *)
(*   props: Seq([id, end, yes, msgs])  governance proposals in voting period *)
(*   nextProp: id the next proposal will get                                 *)
EXTENDS Stream

VotingMs == 2000

------------------------------------------------------------------------------
(* who must sign a message *)
SignerOf(m) ==
  CASE m.t = "Raise" -> m.pur
    [] m.t \in {"Decide", "Whitelist"} -> m.signer
    [] m.t \in {"WReg", "WRec", "WBuy", "BReg", "BRec", "BBuy"} -> m.owner
    [] m.t \in {"SCreate", "STopUp", "SRate", "SCancel"} -> m.sender
    [] m.t = "SClaim" -> m.receiver
    [] m.t = "Send" -> m.from
    [] m.t = "Delegate" -> m.del
    [] m.t = "Exec" -> m.grantee
    [] m.t = "GExec" -> m.member
    [] m.t \in {"Grant", "Revoke", "FGrant", "FRevoke"} -> m.granter
    [] m.t = "UpdParams" -> m.authority
    [] m.t = "GovProp" -> m.proposer
    [] m.t = "Vote" -> m.voter
    [] OTHER -> "?"

RECURSIVE Dedup(_)
Dedup(s) == IF s = <<>> THEN <<>>
            ELSE LET r == Dedup(Tail(s)) IN
                 IF Contains(r, Head(s)) THEN <<Head(s)>> \o SeqRemove(r, Head(s)) ELSE <<Head(s)>> \o r
RequiredSigners(msgs) == Dedup([i \in DOMAIN msgs |-> SignerOf(msgs[i])])

------------------------------------------------------------------------------
(* parameter updates; p in model form *)
ParamsValid(st, mod, p) ==
  CASE mod = "ent" -> EntParamsValid(st, p)
    [] mod \in {"wrk", "bcn"} -> RegParamsValid(p)
    [] mod = "str" -> StrParamsValid(p)
    [] OTHER -> FALSE
ApplyParams(st, mod, p) ==
  CASE mod = "ent" -> SetEntParams(st, p)
    [] mod \in {"wrk", "bcn"} -> SetRegParams(st, mod, p)
    [] mod = "str" -> SetStrParams(st, p)
    [] OTHER -> Fail(st)

------------------------------------------------------------------------------
(* x/authz: generic authorisations granter -> grantee per message type.      *)
(* st.grants = ["granter/grantee/type" -> 1]                                 *)
GrantableTypes == {"Raise", "Decide", "Whitelist", "WReg", "WRec", "WBuy", "BReg", "BRec", "BBuy",
                   "SCreate", "SClaim", "STopUp", "SRate", "SCancel", "Send"}
GrantKey(granter, grantee, mt) == granter \o "/" \o grantee \o "/" \o mt
FGrantKey(granter, grantee) == granter \o "/" \o grantee
MayExec(st, grantee, m) == SignerOf(m) = grantee \/ Has(st.grants, GrantKey(SignerOf(m), grantee, m.t))

------------------------------------------------------------------------------
(* x/group: ONE group (members GroupMembers, each of weight 1) with ONE       *)
(* policy account "grp" (threshold 1, no minimum execution period), created  *)
(* before the first transaction.  "grp" is an account without a key (its     *)
(* address is derived, 32 bytes): it acts only through GExec = a group       *)
(* proposal submitted by a member with immediate execution (Exec = TRY).     *)
GroupMembers == {"A1", "A2"}

------------------------------------------------------------------------------
(* stateless checks of one message, nested messages included (stage S1) *)
RECURSIVE BasicOk(_, _)
BasicOk(st, m) ==
  CASE m.t = "Raise" -> m.amt > 0 /\ WellFormedDenom(m.denom)
    [] m.t = "Decide" -> m.id # 0 /\ m.d \in {"accept", "reject"}
    [] m.t = "Whitelist" -> m.act \in {"add", "remove"}
    [] m.t = "WReg" -> RegBasicOk("wrk", m)
    [] m.t = "BReg" -> RegBasicOk("bcn", m)
    [] m.t = "WRec" -> RecBasicOk("wrk", m)
    [] m.t = "BRec" -> RecBasicOk("bcn", m)
    [] m.t \in {"WBuy", "BBuy"} -> BuyBasicOk("x", m)
    [] m.t = "SCreate" -> CreateBasicOk(m)
    [] m.t = "STopUp" -> m.dep > 0
    [] m.t = "SRate" -> m.rate >= 1
    [] m.t \in {"SClaim", "SCancel"} -> TRUE
    [] m.t = "Send" -> m.amt > 0
    [] m.t = "Delegate" -> m.amt > 0
    [] m.t = "Exec" -> Len(m.msgs) > 0 /\ \A i \in DOMAIN m.msgs : BasicOk(st, m.msgs[i])
    [] m.t = "GExec" -> Len(m.msgs) > 0 /\ \A i \in DOMAIN m.msgs : BasicOk(st, m.msgs[i])
    [] m.t = "Grant" -> m.granter # m.grantee /\ m.mt \in GrantableTypes
    [] m.t = "Revoke" -> m.granter # m.grantee /\ m.mt # ""
    [] m.t \in {"FGrant", "FRevoke"} -> m.granter # m.grantee
    [] m.t = "UpdParams" -> ParamsValid(st, m.mod, m.p)
    [] m.t = "GovProp" -> \A i \in DOMAIN m.msgs : BasicOk(st, m.msgs[i])
    [] m.t = "Vote" -> TRUE
    [] OTHER -> FALSE

------------------------------------------------------------------------------
\* entities that messages of a rolled-back transaction had created before a later message failed: ids and stream
\* pairs that exist only in the discarded branch.  Observation variable st.aux.ghost (never compared with the code):
\* it lets the bounded models aim schedules at operations that meet such a key again (Goals.tla).
Ghosts(s0, s1) ==
     UNION { { <<k, s1[k].ch[i].id, s1[k].ch[i].owner>> : i \in (DOMAIN s1[k].ch) \ (DOMAIN s0[k].ch) } : k \in {"wrk", "bcn"} }
  \cup UNION { { <<k \o "-limit", s1[k].ch[i].id, "-">> : i \in { j \in (DOMAIN s1[k].ch) \cap (DOMAIN s0[k].ch) : s1[k].ch[j].limit # s0[k].ch[j].limit } } : k \in {"wrk", "bcn"} }
  \cup { <<"po", s1.ent.po[i].id, s1.ent.po[i].pur>> : i \in (DOMAIN s1.ent.po) \ (DOMAIN s0.ent.po) }
  \cup { <<"str", key, "-">> : key \in (DOMAIN s1.str.s) \ (DOMAIN s0.str.s) }
  \* streams that the discarded branch had changed (top-up, flow rate, claim) or removed (cancel)
  \cup { <<"str-mod", key, "-">> : key \in { x \in DOMAIN s0.str.s : x \notin DOMAIN s1.str.s \/ s1.str.s[x] # s0.str.s[x] } }

------------------------------------------------------------------------------
(* message handlers (stage S3).  signer = the account the router sees as     *)
(* having authorised the message: a transaction signer, or for messages      *)
(* nested in Exec the grantee (self-exec needs no grant; no grants exist).   *)
RECURSIVE RunMsg(_, _)
RECURSIVE RunMsgs(_, _, _)
RunMsgs(st, msgs, outs) ==
  IF msgs = <<>> THEN OkOut(st, outs)
  ELSE LET r == RunMsg(st, Head(msgs)) IN
       IF ~r.ok THEN [r EXCEPT !.out = outs] ELSE RunMsgs(r.st, Tail(msgs), Append(outs, r.out))

RunMsg(st, m) ==
  CASE m.t = "Raise" -> Raise(st, m.pur, m.amt, m.denom)
    [] m.t = "Decide" -> Decide(st, m.signer, m.id, m.d)
    [] m.t = "Whitelist" -> Whitelist(st, m.signer, m.addr, m.act)
    [] m.t = "WReg" -> Register(st, "wrk", m)
    [] m.t = "BReg" -> Register(st, "bcn", m)
    [] m.t = "WRec" -> Record(st, "wrk", m)
    [] m.t = "BRec" -> Record(st, "bcn", m)
    [] m.t = "WBuy" -> Purchase(st, "wrk", m)
    [] m.t = "BBuy" -> Purchase(st, "bcn", m)
    [] m.t = "SCreate" -> Create(st, m)
    [] m.t = "SClaim" -> Claim(st, m)
    [] m.t = "STopUp" -> TopUp(st, m)
    [] m.t = "SRate" -> UpdateRate(st, m)
    [] m.t = "SCancel" -> Cancel(st, m)
    [] m.t = "Send" -> Send(st, m.from, m.to, m.denom, m.amt)
    [] m.t = "Exec" ->
         \* every nested message must be authorised by the grantee itself or by a (generic, non-expiring) grant of
         \* its signer to the grantee for exactly that message type; the nested message then runs AS its signer
         IF \E i \in DOMAIN m.msgs : ~MayExec(st, m.grantee, m.msgs[i]) THEN Fail(st)
         ELSE LET r == RunMsgs(st, m.msgs, <<>>) IN IF r.ok THEN OkOut(r.st, [nested |-> Len(m.msgs)]) ELSE Fail(st)
    [] m.t = "GExec" ->
         \* only members may submit; every message must be one the policy account signs; the proposer's yes vote
         \* reaches the threshold and the messages run AS the policy account in a branch of their own: when one of
         \* them fails the branch is discarded and the transaction still succeeds (the proposal is kept as failed)
         IF m.member \notin GroupMembers \/ \E i \in DOMAIN m.msgs : SignerOf(m.msgs[i]) # "grp" THEN Fail(st)
         ELSE LET r == RunMsgs(st, m.msgs, <<>>) IN
              IF r.ok THEN OkOut(r.st, [executed |-> TRUE])
              ELSE OkOut([st EXCEPT !.aux.ghost = @ \cup Ghosts(st, r.st)], [executed |-> FALSE])
    [] m.t = "Grant" -> Ok([st EXCEPT !.grants = Upd(@, GrantKey(m.granter, m.grantee, m.mt), 1)])
    [] m.t = "Revoke" ->
         IF ~Has(st.grants, GrantKey(m.granter, m.grantee, m.mt)) THEN Fail(st)
         ELSE Ok([st EXCEPT !.grants = Del(@, GrantKey(m.granter, m.grantee, m.mt))])
    \* x/feegrant: an unlimited, non-expiring basic allowance granter -> grantee
    [] m.t = "FGrant" ->
         IF Has(st.fgrants, FGrantKey(m.granter, m.grantee)) THEN Fail(st)
         ELSE Ok([st EXCEPT !.fgrants = Upd(@, FGrantKey(m.granter, m.grantee), 1)])
    [] m.t = "FRevoke" ->
         IF ~Has(st.fgrants, FGrantKey(m.granter, m.grantee)) THEN Fail(st)
         ELSE Ok([st EXCEPT !.fgrants = Del(@, FGrantKey(m.granter, m.grantee))])
    [] m.t = "UpdParams" ->
         IF m.authority # "gov" THEN Fail(st) ELSE ApplyParams(st, m.mod, m.p)
    [] m.t = "GovProp" ->
         \* gov accepts a proposal only if each message is to be signed by the gov account
         IF \E i \in DOMAIN m.msgs : SignerOf(m.msgs[i]) # "gov" THEN Fail(st)
         ELSE LET id == st.aux.nextProp IN
              OkOut([st EXCEPT !.aux.nextProp = @ + 1,
                               !.aux.props = Append(@, [id |-> id, end |-> st.time + VotingMs, yes |-> FALSE, msgs |-> m.msgs])],
                    [id |-> id])
    [] m.t = "Vote" ->
         IF m.voter # "V" \/ ~\E i \in DOMAIN st.aux.props : st.aux.props[i].id = m.id
         THEN Fail(st)
         ELSE Ok([st EXCEPT !.aux.props = [i \in DOMAIN @ |-> IF @[i].id = m.id THEN [@[i] EXCEPT !.yes = TRUE] ELSE @[i]]])
    [] OTHER -> Fail(st)

------------------------------------------------------------------------------
(* the ante chain (stage S2) *)
IsRegistryTx(msgs, k) == \E i \in DOMAIN msgs : IsRegMsg(k, msgs[i])
IsAnyRegistryTx(msgs) == IsRegistryTx(msgs, "wrk") \/ IsRegistryTx(msgs, "bcn")

\* top-level registry operations of module k
TopOps(msgs, k) == SelectSeq(msgs, LAMBDA m : IsRegMsg(k, m))
\* ... and through Exec wrappers (what the transaction will really execute)
RECURSIVE Flatten(_)
Flatten(msgs) == IF msgs = <<>> THEN <<>>
                 ELSE LET m == Head(msgs) IN
                      (IF m.t \in {"Exec", "GovProp", "GExec"} THEN Flatten(m.msgs) ELSE <<m>>) \o Flatten(Tail(msgs))
AllOps(msgs, k) == SelectSeq(Flatten(msgs), LAMBDA m : IsRegMsg(k, m))
SumFees(p, ops) == SeqSum([i \in DOMAIN ops |-> MsgFee(p, ops[i])])

\* payer can cover fee f of denomination d from liquid plus locked funds
PayerHasFunds(st, payer, d, f) ==
  /\ payer \in DOMAIN st.ent.locked
  /\ BalOf(st, payer, d) + (IF d = st.ent.p.denom THEN st.ent.locked[payer] ELSE 0) >= f
  /\ Spendable(st, payer, d) + (IF d = st.ent.p.denom THEN st.ent.locked[payer] ELSE 0) >= f

\* Sum of requested slots per registration must not exceed what can be bought
SlotsOk(st, msgs, k) ==
  LET buys == SelectSeq(msgs, LAMBDA m : m.t = (IF k = "wrk" THEN "WBuy" ELSE "BBuy"))
      ids  == { buys[i].id : i \in DOMAIN buys }
  IN \A id \in ids :
       LET want == SeqSum([i \in DOMAIN buys |-> IF buys[i].id = id THEN buys[i].n ELSE 0])
           can  == IF ChExists(st, k, id) THEN Remaining(st[k].p, ChOf(st, k, id).limit) ELSE 0
       IN want <= can

\* module fee decorator of module k for Deliver mode (CheckTx adds the fee rule, see Admit)
RegAnteOk(st, tx, k) ==
  IsRegistryTx(tx.msgs, k) =>
     /\ FeeOf(tx.fee, st[k].p.denom) > 0          \* Find() miss: refused (panic in deliver, error in check)
     /\ PayerHasFunds(st, tx.payer, st[k].p.denom, FeeOf(tx.fee, st[k].p.denom))
     /\ SlotsOk(st, tx.msgs, k)

DeductFee(st, payer, fee) ==
  IF \E d \in DOMAIN fee : Spendable(st, payer, d) < fee[d] THEN Fail(st)
  ELSE Ok(FoldL(LAMBDA d, s : Move(s, payer, "fees", d, fee[d]), st, SetToSeq(DOMAIN fee)))

SigsOk(tx) == /\ ~tx.badSig /\ ~tx.badSeq
              /\ (tx.signers # <<>> => tx.signers = RequiredSigners(tx.msgs))

Ante(st, tx) ==
  IF ~RegAnteOk(st, tx, "wrk") \/ ~RegAnteOk(st, tx, "bcn") THEN Fail(st)
  ELSE LET u == IF IsAnyRegistryTx(tx.msgs) /\ st.ent.locked[tx.payer] > 0
                THEN UnlockForFees(st, tx.payer, tx.fee) ELSE Ok(st)
       IN IF ~u.ok THEN Fail(st)
          \* the fee is taken from the fee granter when the transaction names one (it must have granted the payer an
          \* allowance); the module fee checks and the eFUND unlock above still concern the fee PAYER
          ELSE IF tx.granter # "" /\ tx.granter # tx.payer /\ ~Has(u.st.fgrants, FGrantKey(tx.granter, tx.payer)) THEN Fail(st)
          ELSE LET d == DeductFee(u.st, IF tx.granter # "" THEN tx.granter ELSE tx.payer, tx.fee) IN
               IF ~d.ok \/ ~SigsOk(tx) THEN Fail(st) ELSE Ok(d.st)

------------------------------------------------------------------------------
(* normalised transaction from an event record *)
TxOf(ev) ==
  LET msgs == ev.msgs
      req  == RequiredSigners(msgs)
  IN [msgs |-> msgs,
      fee |-> Get(ev, "fee", <<>>),
      signers |-> Get(ev, "signers", <<>>),
      payer |-> IF Get(ev, "payer", "") # "" THEN ev.payer ELSE req[1],
      granter |-> Get(ev, "granter", ""),
      badSig |-> Get(ev, "badSig", FALSE), badSeq |-> Get(ev, "badSeq", FALSE)]

DeliverTx(st, ev) ==
  LET tx == TxOf(ev) IN
  IF tx.msgs = <<>> \/ \E i \in DOMAIN tx.msgs : ~BasicOk(st, tx.msgs[i]) THEN Fail(st)
  ELSE LET a == Ante(st, tx) IN
       IF ~a.ok THEN Fail(st)
       ELSE LET r == RunMsgs(a.st, tx.msgs, <<>>) IN
            IF r.ok THEN r
            ELSE [r EXCEPT !.st = [a.st EXCEPT !.aux.ghost = @ \cup Ghosts(a.st, r.st)], !.out = <<>>]     \* ante effects stay

------------------------------------------------------------------------------
(* CheckTx admission, the ideal rule of C06: the fee offered in the module's *)
(* fee denomination equals the sum over ALL registry operations the          *)
(* transaction will execute (through Exec wrappers, both modules together    *)
(* when they share the denomination), and the payer can cover it.            *)
ExpectedFee(st, msgs, d) ==
  (IF st.wrk.p.denom = d THEN SumFees(st.wrk.p, AllOps(msgs, "wrk")) ELSE 0)
  + (IF st.bcn.p.denom = d THEN SumFees(st.bcn.p, AllOps(msgs, "bcn")) ELSE 0)
HasRegistryOps(msgs) == AllOps(msgs, "wrk") # <<>> \/ AllOps(msgs, "bcn") # <<>>
FeeRuleHolds(st, tx) ==
  HasRegistryOps(tx.msgs) =>
    \A k \in {"wrk", "bcn"} : AllOps(tx.msgs, k) # <<>> =>
       LET d == st[k].p.denom IN
       /\ FeeOf(tx.fee, d) = ExpectedFee(st, tx.msgs, d)
       /\ PayerHasFunds(st, tx.payer, d, FeeOf(tx.fee, d))
AdmitIdeal(st, ev) == FeeRuleHolds(st, TxOf(ev))

------------------------------------------------------------------------------
(* block hooks *)
BeginBlock(st, ev) ==
  LET s0 == [st EXCEPT !.time = @ + ev.dt, !.height = @ + 1]
      s1 == EntBeginBlocker(s0)
  IN IF s1.halted THEN Panic(s1) ELSE Ok(s1)

\* gov EndBlocker: proposals whose voting period ended are tallied; a passed
\* proposal's messages run all-or-nothing
\* parameter structures that a rolled-back proposal had already written in its discarded branch (observation variable
\* st.aux.ghostp, per module; never compared with the code; lets Goals.tla aim at operations whose outcome would differ)
GhostParams(pr) == { <<pr.msgs[i].mod, pr.msgs[i].p>> : i \in { j \in DOMAIN pr.msgs : pr.msgs[j].t = "UpdParams" } }
ExecProp(pr, st) ==
  IF ~pr.yes THEN st
  ELSE LET r == RunMsgs(st, pr.msgs, <<>>) IN
       IF r.ok THEN r.st ELSE [st EXCEPT !.aux.ghostp = @ \cup GhostParams(pr)]
EndBlock(st, ev) ==
  LET due  == SelectSeq(st.aux.props, LAMBDA pr : pr.end <= st.time)
      keep == SelectSeq(st.aux.props, LAMBDA pr : pr.end > st.time)
      s1   == FoldL(ExecProp, st, due)
  IN Ok([s1 EXCEPT !.aux.props = keep])

Commit(st, ev) == Ok(st)

Step(st, ev) ==
  CASE ev.a = "BeginBlock" -> BeginBlock(st, ev)
    [] ev.a = "DeliverTx" -> DeliverTx(st, ev)
    [] ev.a = "CheckTx" -> Ok(st)      \* admission never changes committed state (judged by AdmitIdeal)
    [] ev.a = "Recheck" -> Ok(st)      \* re-admission of the pending transactions after a block (judged by AdmitIdeal)
    [] ev.a = "EndBlock" -> EndBlock(st, ev)
    [] ev.a = "Commit" -> Commit(st, ev)
    [] ev.a = "ListQueries" -> Ok(st)  \* queries never modify state
    [] ev.a = "Crash" -> Ok(st)        \* nothing runs; what Restart finds is decided by the durable state
    [] ev.a = "Restart" -> Ok(st)      \* the trace / MC specs substitute the last committed state
    [] OTHER -> Fail(st)
=============================================================================
