---- MODULE Trace_TTrace_1790556953 ----
EXTENDS Trace, Sequences, TLCExt, Toolbox, Naturals, TLC

_expression ==
    LET Trace_TEExpression == INSTANCE Trace_TEExpression
    IN Trace_TEExpression!expression
----

_trace ==
    LET Trace_TETrace == INSTANCE Trace_TETrace
    IN Trace_TETrace!trace
----

_inv ==
    ~(
        TLCGet("level") = Len(_TETrace)
        /\
        bad = ({})
        /\
        aux = ([props |-> <<>>, nextProp |-> 2])
        /\
        l = (42)
    )
----

_init ==
    /\ l = _TETrace[1].l
    /\ aux = _TETrace[1].aux
    /\ bad = _TETrace[1].bad
----

_next ==
    /\ \E i,j \in DOMAIN _TETrace:
        /\ \/ /\ j = i + 1
              /\ i = TLCGet("level")
        /\ l  = _TETrace[i].l
        /\ l' = _TETrace[j].l
        /\ aux  = _TETrace[i].aux
        /\ aux' = _TETrace[j].aux
        /\ bad  = _TETrace[i].bad
        /\ bad' = _TETrace[j].bad

\* Uncomment the ASSUME below to write the states of the error trace
\* to the given file in Json format. Note that you can pass any tuple
\* to `JsonSerialize`. For example, a sub-sequence of _TETrace.
    \* ASSUME
    \*     LET J == INSTANCE Json
    \*         IN J!JsonSerialize("Trace_TTrace_1790556953.json", _TETrace)

=============================================================================

 Note that you can extract this module `Trace_TEExpression`
  to a dedicated file to reuse `expression` (the module in the 
  dedicated `Trace_TEExpression.tla` file takes precedence 
  over the module `Trace_TEExpression` below).

---- MODULE Trace_TEExpression ----
EXTENDS Trace, Sequences, TLCExt, Toolbox, Naturals, TLC

expression == 
    [
        \* To hide variables of the `Trace` spec from the error trace,
        \* remove the variables below.  The trace will be written in the order
        \* of the fields of this record.
        l |-> l
        ,aux |-> aux
        ,bad |-> bad
        
        \* Put additional constant-, state-, and action-level expressions here:
        \* ,_stateNumber |-> _TEPosition
        \* ,_lUnchanged |-> l = l'
        
        \* Format the `l` variable as Json value.
        \* ,_lJson |->
        \*     LET J == INSTANCE Json
        \*     IN J!ToJson(l)
        
        \* Lastly, you may build expressions over arbitrary sets of states by
        \* leveraging the _TETrace operator.  For example, this is how to
        \* count the number of times a spec variable changed up to the current
        \* state in the trace.
        \* ,_lModCount |->
        \*     LET F[s \in DOMAIN _TETrace] ==
        \*         IF s = 1 THEN 0
        \*         ELSE IF _TETrace[s].l # _TETrace[s-1].l
        \*             THEN 1 + F[s-1] ELSE F[s-1]
        \*     IN F[_TEPosition - 1]
    ]

=============================================================================



Parsing and semantic processing can take forever if the trace below is long.
 In this case, it is advised to uncomment the module below to deserialize the
 trace from a generated binary file.

\*
\*---- MODULE Trace_TETrace ----
\*EXTENDS Trace, IOUtils, TLC
\*
\*trace == IODeserialize("Trace_TTrace_1790556953.bin", TRUE)
\*
\*=============================================================================
\*

---- MODULE Trace_TETrace ----
EXTENDS Trace, TLC

trace == 
    <<
    ([bad |-> {},aux |-> [props |-> <<>>, nextProp |-> 1],l |-> 1]),
    ([bad |-> {},aux |-> [props |-> <<>>, nextProp |-> 1],l |-> 2]),
    ([bad |-> {},aux |-> [props |-> <<>>, nextProp |-> 1],l |-> 3]),
    ([bad |-> {},aux |-> [props |-> <<>>, nextProp |-> 1],l |-> 4]),
    ([bad |-> {},aux |-> [props |-> <<>>, nextProp |-> 1],l |-> 5]),
    ([bad |-> {},aux |-> [props |-> <<>>, nextProp |-> 1],l |-> 6]),
    ([bad |-> {},aux |-> [props |-> <<>>, nextProp |-> 1],l |-> 7]),
    ([bad |-> {},aux |-> [props |-> <<>>, nextProp |-> 1],l |-> 8]),
    ([bad |-> {},aux |-> [props |-> <<>>, nextProp |-> 1],l |-> 9]),
    ([bad |-> {},aux |-> [props |-> <<>>, nextProp |-> 1],l |-> 10]),
    ([bad |-> {},aux |-> [props |-> <<>>, nextProp |-> 1],l |-> 11]),
    ([bad |-> {},aux |-> [props |-> <<>>, nextProp |-> 1],l |-> 12]),
    ([bad |-> {},aux |-> [props |-> <<>>, nextProp |-> 1],l |-> 13]),
    ([bad |-> {},aux |-> [props |-> <<[msgs |-> <<[t |-> "UpdParams", p |-> [denom |-> "nund", max |-> 1, def |-> 1, feeReg |-> 25, feeRec |-> 2, feePur |-> 2], authority |-> "gov", mod |-> "bcn"]>>, id |-> 1, end |-> 5000, yes |-> TRUE]>>, nextProp |-> 2],l |-> 14]),
    ([bad |-> {},aux |-> [props |-> <<[msgs |-> <<[t |-> "UpdParams", p |-> [denom |-> "nund", max |-> 1, def |-> 1, feeReg |-> 25, feeRec |-> 2, feePur |-> 2], authority |-> "gov", mod |-> "bcn"]>>, id |-> 1, end |-> 5000, yes |-> TRUE]>>, nextProp |-> 2],l |-> 15]),
    ([bad |-> {},aux |-> [props |-> <<[msgs |-> <<[t |-> "UpdParams", p |-> [denom |-> "nund", max |-> 1, def |-> 1, feeReg |-> 25, feeRec |-> 2, feePur |-> 2], authority |-> "gov", mod |-> "bcn"]>>, id |-> 1, end |-> 5000, yes |-> TRUE]>>, nextProp |-> 2],l |-> 16]),
    ([bad |-> {},aux |-> [props |-> <<[msgs |-> <<[t |-> "UpdParams", p |-> [denom |-> "nund", max |-> 1, def |-> 1, feeReg |-> 25, feeRec |-> 2, feePur |-> 2], authority |-> "gov", mod |-> "bcn"]>>, id |-> 1, end |-> 5000, yes |-> TRUE]>>, nextProp |-> 2],l |-> 17]),
    ([bad |-> {},aux |-> [props |-> <<[msgs |-> <<[t |-> "UpdParams", p |-> [denom |-> "nund", max |-> 1, def |-> 1, feeReg |-> 25, feeRec |-> 2, feePur |-> 2], authority |-> "gov", mod |-> "bcn"]>>, id |-> 1, end |-> 5000, yes |-> TRUE]>>, nextProp |-> 2],l |-> 18]),
    ([bad |-> {},aux |-> [props |-> <<[msgs |-> <<[t |-> "UpdParams", p |-> [denom |-> "nund", max |-> 1, def |-> 1, feeReg |-> 25, feeRec |-> 2, feePur |-> 2], authority |-> "gov", mod |-> "bcn"]>>, id |-> 1, end |-> 5000, yes |-> TRUE]>>, nextProp |-> 2],l |-> 19]),
    ([bad |-> {},aux |-> [props |-> <<[msgs |-> <<[t |-> "UpdParams", p |-> [denom |-> "nund", max |-> 1, def |-> 1, feeReg |-> 25, feeRec |-> 2, feePur |-> 2], authority |-> "gov", mod |-> "bcn"]>>, id |-> 1, end |-> 5000, yes |-> TRUE]>>, nextProp |-> 2],l |-> 20]),
    ([bad |-> {},aux |-> [props |-> <<[msgs |-> <<[t |-> "UpdParams", p |-> [denom |-> "nund", max |-> 1, def |-> 1, feeReg |-> 25, feeRec |-> 2, feePur |-> 2], authority |-> "gov", mod |-> "bcn"]>>, id |-> 1, end |-> 5000, yes |-> TRUE]>>, nextProp |-> 2],l |-> 21]),
    ([bad |-> {},aux |-> [props |-> <<>>, nextProp |-> 2],l |-> 22]),
    ([bad |-> {},aux |-> [props |-> <<>>, nextProp |-> 2],l |-> 23]),
    ([bad |-> {},aux |-> [props |-> <<>>, nextProp |-> 2],l |-> 24]),
    ([bad |-> {},aux |-> [props |-> <<>>, nextProp |-> 2],l |-> 25]),
    ([bad |-> {},aux |-> [props |-> <<>>, nextProp |-> 2],l |-> 26]),
    ([bad |-> {},aux |-> [props |-> <<>>, nextProp |-> 2],l |-> 27]),
    ([bad |-> {},aux |-> [props |-> <<>>, nextProp |-> 2],l |-> 28]),
    ([bad |-> {},aux |-> [props |-> <<>>, nextProp |-> 2],l |-> 29]),
    ([bad |-> {},aux |-> [props |-> <<>>, nextProp |-> 2],l |-> 30]),
    ([bad |-> {},aux |-> [props |-> <<>>, nextProp |-> 2],l |-> 31]),
    ([bad |-> {},aux |-> [props |-> <<>>, nextProp |-> 2],l |-> 32]),
    ([bad |-> {},aux |-> [props |-> <<>>, nextProp |-> 2],l |-> 33]),
    ([bad |-> {},aux |-> [props |-> <<>>, nextProp |-> 2],l |-> 34]),
    ([bad |-> {},aux |-> [props |-> <<>>, nextProp |-> 2],l |-> 35]),
    ([bad |-> {},aux |-> [props |-> <<>>, nextProp |-> 2],l |-> 36]),
    ([bad |-> {},aux |-> [props |-> <<>>, nextProp |-> 2],l |-> 37]),
    ([bad |-> {},aux |-> [props |-> <<>>, nextProp |-> 2],l |-> 38]),
    ([bad |-> {},aux |-> [props |-> <<>>, nextProp |-> 2],l |-> 39]),
    ([bad |-> {},aux |-> [props |-> <<>>, nextProp |-> 2],l |-> 40]),
    ([bad |-> {},aux |-> [props |-> <<>>, nextProp |-> 2],l |-> 41]),
    ([bad |-> {},aux |-> [props |-> <<>>, nextProp |-> 2],l |-> 42])
    >>
----


=============================================================================

---- CONFIG Trace_TTrace_1790556953 ----

INVARIANT
    _inv

CHECK_DEADLOCK
    \* CHECK_DEADLOCK off because of PROPERTY or INVARIANT above.
    FALSE

INIT
    _init

NEXT
    _next

CONSTANT
    _TETrace <- _trace

ALIAS
    _expression
=============================================================================
\* Generated on Mon Sep 28 00:55:55 UTC 2026