------------------------------ MODULE TraceKeys ------------------------------
(* C18 trace validation.  The Go harness (`vharness keys`) executed MC_Keys' *)
(* behaviours on the REAL keepers with the symbolic keys K1..K4 instantiated *)
(* from boundary tables, and after every operation read back every logical   *)
(* key through point reads, iteration / list functions and (streams) the     *)
(* gRPC list queries.  Here every recorded line is judged against the ideal  *)
(* map of Keys.tla: `store` is advanced by the KV actions KVSet / KVDel, and *)
(* what the code reported must be exactly Get / Iterate of that map.         *)
(*   Reset      a new behaviour starts on an empty store                     *)
(*   KeyOp      one Set / Del on the real keeper + the complete read-back    *)
(*   KeySample  the bytes a real key builder produced, compared with the     *)
(*              layout of DESIGN Appendix C (Keys!KeyB, W = 8); a difference *)
(*              is a note, not a verdict (a different alias-free layout is   *)
(*              allowed)                                                     *)
EXTENDS Keys, Json, IOUtils, TLC

Trace == ndJsonDeserialize(IOEnv.TRACE_FILE)

VARIABLES l,      \* next line to judge
          bad     \* set of findings <<line, layer, property, detail>>
vars == <<l, store, bad>>

------------------------------------------------------------------------------
\* point reads: every key reads back exactly what the ideal map holds (anything else is aliasing)
PointReadDiffers(p, st) == \E k \in DOMAIN p.get : p.get[k] # Get(st, k)

\* list functions: content, then order of the numerically keyed entries
Expected(p, st) == { <<k, st[k]>> : k \in (DOMAIN st) \ SeqRange(p.noIter) }
IterationContentDiffers(p, st) ==
  \/ Len(p.iter) # Cardinality(Expected(p, st))
  \/ SeqRange(p.iter) # Expected(p, st)
ObservedKeys(p) == [i \in 1..Len(p.iter) |-> p.iter[i][1]]
IterationNotInNumericOrder(p, st) ==
  /\ ~IterationContentDiffers(p, st)
  /\ SelectSeq(ObservedKeys(p), LAMBDA k : k \in SeqRange(p.numericOrder)) # KeysInOrder(st, p.numericOrder)

\* gRPC list queries of the stream module: q.members are the symbolic keys that logically belong to
\* the query (all / same sender / same receiver), q.got what the chain listed, each entry mapped back
\* to a symbolic key by the (receiver, sender) the chain REPORTED for it ("?" = no created stream)
ListExpected(q, st) == { <<k, st[k]>> : k \in SeqRange(q.members) \cap DOMAIN st }
ListPanics(q) == \E e \in SeqRange(q.got) : e[1] = "!panic"
ListWrongParties(q, st) == \E e \in SeqRange(q.got) : e \notin ListExpected(q, st)
ListIncomplete(q, st) == \/ ListExpected(q, st) \ SeqRange(q.got) # {}
                         \/ Len(q.got) # Cardinality(SeqRange(q.got))
ListFindings(p, st) ==
  UNION { IF ListPanics(q) THEN {"StreamListQueryPanics"}
          ELSE IF ListWrongParties(q, st) THEN {"StreamListedWithWrongParties"}
          ELSE IF ListIncomplete(q, st) THEN {"IterationContentDiffers"}
          ELSE {} : q \in SeqRange(p.listed) }

Details(p, st) ==
     (IF PointReadDiffers(p, st) THEN {"PointReadDiffers"} ELSE {})
  \cup (IF IterationContentDiffers(p, st) THEN {"IterationContentDiffers"} ELSE {})
  \cup (IF IterationNotInNumericOrder(p, st) THEN {"IterationNotInNumericOrder"} ELSE {})
  \cup ListFindings(p, st)
Judge(i, st) == { <<i, "L1", "C18", d>> : d \in Details(Trace[i].post, st) }

JudgeSample(i) ==
  LET ev == Trace[i] IN
  IF KeyB(ev.args.sec, ev.args) # ev.res.key
  THEN {<<i, "L2", "note", <<"KeyBytesDifferFromAppendixC", ev.args.sec>> >>} ELSE {}

\* diagnostic: with EXPLAIN=<line> in the environment print expected and observed values of that line
Explain(i, st) ==
  IF "EXPLAIN" \in DOMAIN IOEnv /\ IOEnv.EXPLAIN = ToString(i) /\ Trace[i].a = "KeyOp"
  THEN LET p == Trace[i].post IN
       PrintT(<<"EXPLAIN", ToJson([line |-> i, ev |-> Trace[i].args, res |-> Trace[i].res,
                                   expectedGet |-> [k \in DOMAIN p.get |-> Get(st, k)], observedGet |-> p.get,
                                   expectedIter |-> Iterate(st, p.numericOrder), observedIter |-> p.iter,
                                   notListable |-> p.noIter, listed |-> p.listed,
                                   details |-> Details(p, st)])>>)
  ELSE TRUE

TraceInit == l = 1 /\ KVInit /\ bad = {}

TraceNext ==
  /\ l <= Len(Trace)
  /\ l' = l + 1
  /\ LET ev == Trace[l] IN
     IF ev.a = "Reset" THEN store' = EmptyStore /\ bad' = bad
     ELSE IF ev.a = "KeySample" THEN UNCHANGED store /\ bad' = bad \cup JudgeSample(l)
     ELSE /\ IF ev.args.op = "Set" THEN KVSet(ev.args.k, ev.args.v) ELSE KVDel(ev.args.k)
          /\ Explain(l, store')
          /\ bad' = bad \cup Judge(l, store')

TraceSpec == TraceInit /\ [][TraceNext]_vars

\* always TRUE; prints the verdict when the whole trace has been consumed
AtEnd == l = Len(Trace) + 1 => PrintT(<<"VERDICT", Len(Trace), ToJson(bad)>>)
TraceAccepted == TLCGet("stats").diameter = Len(Trace) + 1
=============================================================================
