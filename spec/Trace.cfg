SPECIFICATION TraceSpec
INVARIANT AtEnd
POSTCONDITION TraceAccepted
CHECK_DEADLOCK FALSE
