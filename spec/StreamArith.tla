----------------------------- MODULE StreamArith -----------------------------
(* The arithmetic of payment streams over the UNBOUNDED integers: the one    *)
(* place where "rate x whole seconds", "floor(deposit / rate)" and           *)
(* "floor(released x fee rate)" of properties C10 - C12 are written down.    *)
(*                                                                           *)
(*  * Stream.tla (TLC, small numbers, time unit = 1000 ticks per second)     *)
(*    builds its handlers from these operators.                              *)
(*  * ArithTrace (Apalache, true integers, time unit = 10^9 ticks per        *)
(*    second) judges recordings of the real code with deposits up to 2^200,  *)
(*    rates up to 2^63-1 and durations of thousands of years, which TLC's    *)
(*    32-bit integers cannot represent (mc/ArithTrace.tla, generated         *)
(*    vectors; DESIGN section 0.2 "Numbers").                                *)
(*                                                                           *)
(* A stream is [dep, rate, last, dzt, live]; times are ticks; `unit` is the  *)
(* number of ticks per second.  Everything is plain TLA+ (no recursion, no   *)
(* sets), so both TLC and Apalache evaluate it.                              *)
EXTENDS Integers

\* floor(deposit / rate): the whole seconds a deposit sustains a rate
\* (the divisor is made positive in the unused branch too: Apalache folds constants in both branches)
IDuration(dep, rate) == IF rate <= 0 \/ dep <= 0 THEN 0 ELSE dep \div (IF rate <= 0 THEN 1 ELSE rate)

\* whole seconds between two instants
IWholeSecs(now, last, unit) == (now - last) \div unit

\* what one release pays out: everything at or after the zero time, else min(dep, rate x whole seconds)
IRelease(now, dzt, last, dep, rate, unit) ==
  IF now >= dzt THEN dep
  ELSE LET c == rate * IWholeSecs(now, last, unit) IN IF dep > c THEN c ELSE dep

\* validator fee of a release: floor(released x num / den), fee rate num/den in [0, 1]
IFee(claim, num, den) == IF num > 0 /\ den > 0 THEN (claim * num) \div (IF den > 0 THEN den ELSE 1) ELSE 0

------------------------------------------------------------------------------
(* one operation on ONE stream, at the level of numbers.                     *)
(* result: [ok, x, pay (to the receiver), fee (to the fee collector),        *)
(*          ref (refund to the sender)]                                      *)

\* @typeAlias: stream = {dep: Int, rate: Int, last: Int, dzt: Int, live: Bool};
\* @typeAlias: ares = {ok: Bool, x: $stream, pay: Int, fee: Int, ref: Int};
StreamArithAliases == TRUE

\* @type: ($stream) => $ares;
ANoPay(x) == [ok |-> TRUE, x |-> x, pay |-> 0, fee |-> 0, ref |-> 0]
\* @type: ($stream) => $ares;
ARefuse(x) == [ok |-> FALSE, x |-> x, pay |-> 0, fee |-> 0, ref |-> 0]

\* the settlement every release performs (x.dep > 0)
\* @type: ($stream, Int, Int, Int, Int) => $ares;
ASettle(x, now, unit, num, den) ==
  LET c == IRelease(now, x.dzt, x.last, x.dep, x.rate, unit)
      f == IFee(c, num, den)
  IN [ok |-> TRUE, x |-> [x EXCEPT !.dep = x.dep - c, !.last = now], pay |-> c - f, fee |-> f, ref |-> 0]

\* @type: (Int, Int, Int, Int, Int) => $ares;
ACreate(dep, rate, now, unit, funds) ==
  LET x == [dep |-> dep, rate |-> rate, last |-> now, dzt |-> now + IDuration(dep, rate) * unit, live |-> TRUE]
  IN IF dep > 0 /\ rate >= 1 /\ IDuration(dep, rate) >= 60 /\ funds >= dep THEN ANoPay(x)
     ELSE ARefuse([dep |-> 0, rate |-> 0, last |-> 0, dzt |-> 0, live |-> FALSE])

\* @type: ($stream, Int, Int, Int, Int) => $ares;
AClaim(x, now, unit, num, den) ==
  IF ~x.live \/ x.dep <= 0 THEN ARefuse(x) ELSE ASettle(x, now, unit, num, den)

\* @type: ($stream, Int, Int, Int, Int, Int, Int) => $ares;
ATopUp(x, amt, now, unit, num, den, funds) ==
  IF ~x.live \/ amt <= 0 \/ funds < amt THEN ARefuse(x)
  ELSE LET expired == x.dzt <= now
           s == IF expired /\ x.dep > 0 THEN ASettle(x, now, unit, num, den) ELSE ANoPay(x)
           y == s.x
           ext == IDuration(amt, y.rate) * unit
       IN [s EXCEPT !.x = [y EXCEPT !.dep = y.dep + amt,
                                    !.dzt = (IF expired THEN now ELSE y.dzt) + ext,
                                    !.last = IF expired THEN now ELSE y.last]]

\* @type: ($stream, Int, Int, Int, Int, Int) => $ares;
ARate(x, rate, now, unit, num, den) ==
  IF ~x.live \/ rate < 1 THEN ARefuse(x)
  ELSE LET s == IF x.dep > 0 THEN ASettle(x, now, unit, num, den) ELSE ANoPay(x)
           y == s.x
       IN [s EXCEPT !.x = [y EXCEPT !.rate = rate,
                                    !.dzt = IF x.dep > 0 THEN now + IDuration(y.dep, rate) * unit ELSE now]]

\* @type: ($stream, Int, Int, Int, Int) => $ares;
ACancel(x, now, unit, num, den) ==
  IF ~x.live THEN ARefuse(x)
  ELSE LET s == IF x.dep > 0 THEN ASettle(x, now, unit, num, den) ELSE ANoPay(x)
       IN [s EXCEPT !.x = [s.x EXCEPT !.dep = 0, !.live = FALSE], !.ref = s.x.dep]

\* C11: at every moment the remaining deposit sustains the rate from the last release to the zero time
\* @type: ($stream, Int) => Bool;
ASustained(x, unit) == (x.live /\ x.dep > 0 /\ x.dzt > x.last) => x.dep * unit >= x.rate * (x.dzt - x.last)
=============================================================================
