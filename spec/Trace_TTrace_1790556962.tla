---- MODULE Trace_TTrace_1790556962 ----
EXTENDS Trace, Sequences, TLCExt, Toolbox, Naturals, TLC

_expression ==
    LET Trace_TEExpression == INSTANCE Trace_TEExpression
    IN Trace_TEExpression!expression
----

_trace ==
    LET Trace_TETrace == INSTANCE Trace_TETrace
    IN Trace_TETrace!trace
----

_inv ==
    ~(
        TLCGet("level") = Len(_TETrace)
        /\
        bad = ({})
        /\
        aux = ([props |-> <<[msgs |-> <<[t |-> "UpdParams", p |-> [denom |-> "nund", max |-> 3, def |-> 3, feeReg |-> 25, feeRec |-> 2, feePur |-> 2], authority |-> "gov", mod |-> "wrk"]>>, id |-> 3, end |-> 67000, yes |-> TRUE]>>, nextProp |-> 4])
        /\
        l = (188)
    )
----

_init ==
    /\ l = _TETrace[1].l
    /\ aux = _TETrace[1].aux
    /\ bad = _TETrace[1].bad
----

_next ==
    /\ \E i,j \in DOMAIN _TETrace:
        /\ \/ /\ j = i + 1
              /\ i = TLCGet("level")
        /\ l  = _TETrace[i].l
        /\ l' = _TETrace[j].l
        /\ aux  = _TETrace[i].aux
        /\ aux' = _TETrace[j].aux
        /\ bad  = _TETrace[i].bad
        /\ bad' = _TETrace[j].bad

\* Uncomment the ASSUME below to write the states of the error trace
\* to the given file in Json format. Note that you can pass any tuple
\* to `JsonSerialize`. For example, a sub-sequence of _TETrace.
    \* ASSUME
    \*     LET J == INSTANCE Json
    \*         IN J!JsonSerialize("Trace_TTrace_1790556962.json", _TETrace)

=============================================================================

 Note that you can extract this module `Trace_TEExpression`
  to a dedicated file to reuse `expression` (the module in the 
  dedicated `Trace_TEExpression.tla` file takes precedence 
  over the module `Trace_TEExpression` below).

---- MODULE Trace_TEExpression ----
EXTENDS Trace, Sequences, TLCExt, Toolbox, Naturals, TLC

expression == 
    [
        \* To hide variables of the `Trace` spec from the error trace,
        \* remove the variables below.  The trace will be written in the order
        \* of the fields of this record.
        l |-> l
        ,aux |-> aux
        ,bad |-> bad
        
        \* Put additional constant-, state-, and action-level expressions here:
        \* ,_stateNumber |-> _TEPosition
        \* ,_lUnchanged |-> l = l'
        
        \* Format the `l` variable as Json value.
        \* ,_lJson |->
        \*     LET J == INSTANCE Json
        \*     IN J!ToJson(l)
        
        \* Lastly, you may build expressions over arbitrary sets of states by
        \* leveraging the _TETrace operator.  For example, this is how to
        \* count the number of times a spec variable changed up to the current
        \* state in the trace.
        \* ,_lModCount |->
        \*     LET F[s \in DOMAIN _TETrace] ==
        \*         IF s = 1 THEN 0
        \*         ELSE IF _TETrace[s].l # _TETrace[s-1].l
        \*             THEN 1 + F[s-1] ELSE F[s-1]
        \*     IN F[_TEPosition - 1]
    ]

=============================================================================



Parsing and semantic processing can take forever if the trace below is long.
 In this case, it is advised to uncomment the module below to deserialize the
 trace from a generated binary file.

\*
\*---- MODULE Trace_TETrace ----
\*EXTENDS Trace, IOUtils, TLC
\*
\*trace == IODeserialize("Trace_TTrace_1790556962.bin", TRUE)
\*
\*=============================================================================
\*

---- MODULE Trace_TETrace ----
EXTENDS Trace, TLC

trace == 
    <<
    ([bad |-> {},aux |-> [props |-> <<>>, nextProp |-> 1],l |-> 1]),
    ([bad |-> {},aux |-> [props |-> <<>>, nextProp |-> 1],l |-> 2]),
    ([bad |-> {},aux |-> [props |-> <<>>, nextProp |-> 1],l |-> 3]),
    ([bad |-> {},aux |-> [props |-> <<>>, nextProp |-> 1],l |-> 4]),
    ([bad |-> {},aux |-> [props |-> <<[msgs |-> <<[t |-> "UpdParams", p |-> [denom |-> "nund", max |-> 4, def |-> 1, feeReg |-> 6, feeRec |-> 2, feePur |-> 4], authority |-> "gov", mod |-> "bcn"]>>, id |-> 1, end |-> 4000, yes |-> TRUE]>>, nextProp |-> 2],l |-> 5]),
    ([bad |-> {},aux |-> [props |-> <<[msgs |-> <<[t |-> "UpdParams", p |-> [denom |-> "nund", max |-> 4, def |-> 1, feeReg |-> 6, feeRec |-> 2, feePur |-> 4], authority |-> "gov", mod |-> "bcn"]>>, id |-> 1, end |-> 4000, yes |-> TRUE]>>, nextProp |-> 2],l |-> 6]),
    ([bad |-> {},aux |-> [props |-> <<[msgs |-> <<[t |-> "UpdParams", p |-> [denom |-> "nund", max |-> 4, def |-> 1, feeReg |-> 6, feeRec |-> 2, feePur |-> 4], authority |-> "gov", mod |-> "bcn"]>>, id |-> 1, end |-> 4000, yes |-> TRUE]>>, nextProp |-> 2],l |-> 7]),
    ([bad |-> {},aux |-> [props |-> <<[msgs |-> <<[t |-> "UpdParams", p |-> [denom |-> "nund", max |-> 4, def |-> 1, feeReg |-> 6, feeRec |-> 2, feePur |-> 4], authority |-> "gov", mod |-> "bcn"]>>, id |-> 1, end |-> 4000, yes |-> TRUE]>>, nextProp |-> 2],l |-> 8]),
    ([bad |-> {},aux |-> [props |-> <<[msgs |-> <<[t |-> "UpdParams", p |-> [denom |-> "nund", max |-> 4, def |-> 1, feeReg |-> 6, feeRec |-> 2, feePur |-> 4], authority |-> "gov", mod |-> "bcn"]>>, id |-> 1, end |-> 4000, yes |-> TRUE]>>, nextProp |-> 2],l |-> 9]),
    ([bad |-> {},aux |-> [props |-> <<[msgs |-> <<[t |-> "UpdParams", p |-> [denom |-> "nund", max |-> 4, def |-> 1, feeReg |-> 6, feeRec |-> 2, feePur |-> 4], authority |-> "gov", mod |-> "bcn"]>>, id |-> 1, end |-> 4000, yes |-> TRUE]>>, nextProp |-> 2],l |-> 10]),
    ([bad |-> {},aux |-> [props |-> <<[msgs |-> <<[t |-> "UpdParams", p |-> [denom |-> "nund", max |-> 4, def |-> 1, feeReg |-> 6, feeRec |-> 2, feePur |-> 4], authority |-> "gov", mod |-> "bcn"]>>, id |-> 1, end |-> 4000, yes |-> TRUE]>>, nextProp |-> 2],l |-> 11]),
    ([bad |-> {},aux |-> [props |-> <<[msgs |-> <<[t |-> "UpdParams", p |-> [denom |-> "nund", max |-> 4, def |-> 1, feeReg |-> 6, feeRec |-> 2, feePur |-> 4], authority |-> "gov", mod |-> "bcn"]>>, id |-> 1, end |-> 4000, yes |-> TRUE]>>, nextProp |-> 2],l |-> 12]),
    ([bad |-> {},aux |-> [props |-> <<[msgs |-> <<[t |-> "UpdParams", p |-> [denom |-> "nund", max |-> 4, def |-> 1, feeReg |-> 6, feeRec |-> 2, feePur |-> 4], authority |-> "gov", mod |-> "bcn"]>>, id |-> 1, end |-> 4000, yes |-> TRUE]>>, nextProp |-> 2],l |-> 13]),
    ([bad |-> {},aux |-> [props |-> <<>>, nextProp |-> 2],l |-> 14]),
    ([bad |-> {},aux |-> [props |-> <<>>, nextProp |-> 2],l |-> 15]),
    ([bad |-> {},aux |-> [props |-> <<>>, nextProp |-> 2],l |-> 16]),
    ([bad |-> {},aux |-> [props |-> <<>>, nextProp |-> 2],l |-> 17]),
    ([bad |-> {},aux |-> [props |-> <<>>, nextProp |-> 2],l |-> 18]),
    ([bad |-> {},aux |-> [props |-> <<>>, nextProp |-> 2],l |-> 19]),
    ([bad |-> {},aux |-> [props |-> <<>>, nextProp |-> 2],l |-> 20]),
    ([bad |-> {},aux |-> [props |-> <<>>, nextProp |-> 2],l |-> 21]),
    ([bad |-> {},aux |-> [props |-> <<>>, nextProp |-> 2],l |-> 22]),
    ([bad |-> {},aux |-> [props |-> <<>>, nextProp |-> 2],l |-> 23]),
    ([bad |-> {},aux |-> [props |-> <<>>, nextProp |-> 2],l |-> 24]),
    ([bad |-> {},aux |-> [props |-> <<>>, nextProp |-> 2],l |-> 25]),
    ([bad |-> {},aux |-> [props |-> <<>>, nextProp |-> 2],l |-> 26]),
    ([bad |-> {},aux |-> [props |-> <<>>, nextProp |-> 2],l |-> 27]),
    ([bad |-> {},aux |-> [props |-> <<[msgs |-> <<[t |-> "UpdParams", p |-> [signers |-> <<"A3">>, denom |-> "nund", limit |-> 5, min |-> 1], authority |-> "gov", mod |-> "ent"]>>, id |-> 2, end |-> 11000, yes |-> TRUE]>>, nextProp |-> 3],l |-> 28]),
    ([bad |-> {},aux |-> [props |-> <<[msgs |-> <<[t |-> "UpdParams", p |-> [signers |-> <<"A3">>, denom |-> "nund", limit |-> 5, min |-> 1], authority |-> "gov", mod |-> "ent"]>>, id |-> 2, end |-> 11000, yes |-> TRUE]>>, nextProp |-> 3],l |-> 29]),
    ([bad |-> {},aux |-> [props |-> <<[msgs |-> <<[t |-> "UpdParams", p |-> [signers |-> <<"A3">>, denom |-> "nund", limit |-> 5, min |-> 1], authority |-> "gov", mod |-> "ent"]>>, id |-> 2, end |-> 11000, yes |-> TRUE]>>, nextProp |-> 3],l |-> 30]),
    ([bad |-> {},aux |-> [props |-> <<[msgs |-> <<[t |-> "UpdParams", p |-> [signers |-> <<"A3">>, denom |-> "nund", limit |-> 5, min |-> 1], authority |-> "gov", mod |-> "ent"]>>, id |-> 2, end |-> 11000, yes |-> TRUE]>>, nextProp |-> 3],l |-> 31]),
    ([bad |-> {},aux |-> [props |-> <<[msgs |-> <<[t |-> "UpdParams", p |-> [signers |-> <<"A3">>, denom |-> "nund", limit |-> 5, min |-> 1], authority |-> "gov", mod |-> "ent"]>>, id |-> 2, end |-> 11000, yes |-> TRUE]>>, nextProp |-> 3],l |-> 32]),
    ([bad |-> {},aux |-> [props |-> <<[msgs |-> <<[t |-> "UpdParams", p |-> [signers |-> <<"A3">>, denom |-> "nund", limit |-> 5, min |-> 1], authority |-> "gov", mod |-> "ent"]>>, id |-> 2, end |-> 11000, yes |-> TRUE]>>, nextProp |-> 3],l |-> 33]),
    ([bad |-> {},aux |-> [props |-> <<[msgs |-> <<[t |-> "UpdParams", p |-> [signers |-> <<"A3">>, denom |-> "nund", limit |-> 5, min |-> 1], authority |-> "gov", mod |-> "ent"]>>, id |-> 2, end |-> 11000, yes |-> TRUE]>>, nextProp |-> 3],l |-> 34]),
    ([bad |-> {},aux |-> [props |-> <<>>, nextProp |-> 3],l |-> 35]),
    ([bad |-> {},aux |-> [props |-> <<>>, nextProp |-> 3],l |-> 36]),
    ([bad |-> {},aux |-> [props |-> <<>>, nextProp |-> 3],l |-> 37]),
    ([bad |-> {},aux |-> [props |-> <<>>, nextProp |-> 3],l |-> 38]),
    ([bad |-> {},aux |-> [props |-> <<>>, nextProp |-> 3],l |-> 39]),
    ([bad |-> {},aux |-> [props |-> <<>>, nextProp |-> 3],l |-> 40]),
    ([bad |-> {},aux |-> [props |-> <<>>, nextProp |-> 3],l |-> 41]),
    ([bad |-> {},aux |-> [props |-> <<>>, nextProp |-> 3],l |-> 42]),
    ([bad |-> {},aux |-> [props |-> <<>>, nextProp |-> 3],l |-> 43]),
    ([bad |-> {},aux |-> [props |-> <<>>, nextProp |-> 3],l |-> 44]),
    ([bad |-> {},aux |-> [props |-> <<>>, nextProp |-> 3],l |-> 45]),
    ([bad |-> {},aux |-> [props |-> <<>>, nextProp |-> 3],l |-> 46]),
    ([bad |-> {},aux |-> [props |-> <<>>, nextProp |-> 3],l |-> 47]),
    ([bad |-> {},aux |-> [props |-> <<>>, nextProp |-> 3],l |-> 48]),
    ([bad |-> {},aux |-> [props |-> <<>>, nextProp |-> 3],l |-> 49]),
    ([bad |-> {},aux |-> [props |-> <<>>, nextProp |-> 3],l |-> 50]),
    ([bad |-> {},aux |-> [props |-> <<>>, nextProp |-> 3],l |-> 51]),
    ([bad |-> {},aux |-> [props |-> <<>>, nextProp |-> 3],l |-> 52]),
    ([bad |-> {},aux |-> [props |-> <<>>, nextProp |-> 3],l |-> 53]),
    ([bad |-> {},aux |-> [props |-> <<>>, nextProp |-> 3],l |-> 54]),
    ([bad |-> {},aux |-> [props |-> <<>>, nextProp |-> 3],l |-> 55]),
    ([bad |-> {},aux |-> [props |-> <<>>, nextProp |-> 3],l |-> 56]),
    ([bad |-> {},aux |-> [props |-> <<>>, nextProp |-> 3],l |-> 57]),
    ([bad |-> {},aux |-> [props |-> <<>>, nextProp |-> 3],l |-> 58]),
    ([bad |-> {},aux |-> [props |-> <<>>, nextProp |-> 3],l |-> 59]),
    ([bad |-> {},aux |-> [props |-> <<>>, nextProp |-> 3],l |-> 60]),
    ([bad |-> {},aux |-> [props |-> <<>>, nextProp |-> 3],l |-> 61]),
    ([bad |-> {},aux |-> [props |-> <<>>, nextProp |-> 3],l |-> 62]),
    ([bad |-> {},aux |-> [props |-> <<>>, nextProp |-> 3],l |-> 63]),
    ([bad |-> {},aux |-> [props |-> <<>>, nextProp |-> 3],l |-> 64]),
    ([bad |-> {},aux |-> [props |-> <<>>, nextProp |-> 3],l |-> 65]),
    ([bad |-> {},aux |-> [props |-> <<>>, nextProp |-> 3],l |-> 66]),
    ([bad |-> {},aux |-> [props |-> <<>>, nextProp |-> 3],l |-> 67]),
    ([bad |-> {},aux |-> [props |-> <<>>, nextProp |-> 3],l |-> 68]),
    ([bad |-> {},aux |-> [props |-> <<>>, nextProp |-> 3],l |-> 69]),
    ([bad |-> {},aux |-> [props |-> <<>>, nextProp |-> 3],l |-> 70]),
    ([bad |-> {},aux |-> [props |-> <<>>, nextProp |-> 3],l |-> 71]),
    ([bad |-> {},aux |-> [props |-> <<>>, nextProp |-> 3],l |-> 72]),
    ([bad |-> {},aux |-> [props |-> <<>>, nextProp |-> 3],l |-> 73]),
    ([bad |-> {},aux |-> [props |-> <<>>, nextProp |-> 3],l |-> 74]),
    ([bad |-> {},aux |-> [props |-> <<>>, nextProp |-> 3],l |-> 75]),
    ([bad |-> {},aux |-> [props |-> <<>>, nextProp |-> 3],l |-> 76]),
    ([bad |-> {},aux |-> [props |-> <<>>, nextProp |-> 3],l |-> 77]),
    ([bad |-> {},aux |-> [props |-> <<>>, nextProp |-> 3],l |-> 78]),
    ([bad |-> {},aux |-> [props |-> <<>>, nextProp |-> 3],l |-> 79]),
    ([bad |-> {},aux |-> [props |-> <<>>, nextProp |-> 3],l |-> 80]),
    ([bad |-> {},aux |-> [props |-> <<>>, nextProp |-> 3],l |-> 81]),
    ([bad |-> {},aux |-> [props |-> <<>>, nextProp |-> 3],l |-> 82]),
    ([bad |-> {},aux |-> [props |-> <<>>, nextProp |-> 3],l |-> 83]),
    ([bad |-> {},aux |-> [props |-> <<>>, nextProp |-> 3],l |-> 84]),
    ([bad |-> {},aux |-> [props |-> <<>>, nextProp |-> 3],l |-> 85]),
    ([bad |-> {},aux |-> [props |-> <<>>, nextProp |-> 3],l |-> 86]),
    ([bad |-> {},aux |-> [props |-> <<>>, nextProp |-> 3],l |-> 87]),
    ([bad |-> {},aux |-> [props |-> <<>>, nextProp |-> 3],l |-> 88]),
    ([bad |-> {},aux |-> [props |-> <<>>, nextProp |-> 3],l |-> 89]),
    ([bad |-> {},aux |-> [props |-> <<>>, nextProp |-> 3],l |-> 90]),
    ([bad |-> {},aux |-> [props |-> <<>>, nextProp |-> 3],l |-> 91]),
    ([bad |-> {},aux |-> [props |-> <<>>, nextProp |-> 3],l |-> 92]),
    ([bad |-> {},aux |-> [props |-> <<>>, nextProp |-> 3],l |-> 93]),
    ([bad |-> {},aux |-> [props |-> <<>>, nextProp |-> 3],l |-> 94]),
    ([bad |-> {},aux |-> [props |-> <<>>, nextProp |-> 3],l |-> 95]),
    ([bad |-> {},aux |-> [props |-> <<>>, nextProp |-> 3],l |-> 96]),
    ([bad |-> {},aux |-> [props |-> <<>>, nextProp |-> 3],l |-> 97]),
    ([bad |-> {},aux |-> [props |-> <<>>, nextProp |-> 3],l |-> 98]),
    ([bad |-> {},aux |-> [props |-> <<>>, nextProp |-> 3],l |-> 99]),
    ([bad |-> {},aux |-> [props |-> <<>>, nextProp |-> 3],l |-> 100]),
    ([bad |-> {},aux |-> [props |-> <<>>, nextProp |-> 3],l |-> 101]),
    ([bad |-> {},aux |-> [props |-> <<>>, nextProp |-> 3],l |-> 102]),
    ([bad |-> {},aux |-> [props |-> <<>>, nextProp |-> 3],l |-> 103]),
    ([bad |-> {},aux |-> [props |-> <<>>, nextProp |-> 3],l |-> 104]),
    ([bad |-> {},aux |-> [props |-> <<>>, nextProp |-> 3],l |-> 105]),
    ([bad |-> {},aux |-> [props |-> <<>>, nextProp |-> 3],l |-> 106]),
    ([bad |-> {},aux |-> [props |-> <<>>, nextProp |-> 3],l |-> 107]),
    ([bad |-> {},aux |-> [props |-> <<>>, nextProp |-> 3],l |-> 108]),
    ([bad |-> {},aux |-> [props |-> <<>>, nextProp |-> 3],l |-> 109]),
    ([bad |-> {},aux |-> [props |-> <<>>, nextProp |-> 3],l |-> 110]),
    ([bad |-> {},aux |-> [props |-> <<>>, nextProp |-> 3],l |-> 111]),
    ([bad |-> {},aux |-> [props |-> <<>>, nextProp |-> 3],l |-> 112]),
    ([bad |-> {},aux |-> [props |-> <<>>, nextProp |-> 3],l |-> 113]),
    ([bad |-> {},aux |-> [props |-> <<>>, nextProp |-> 3],l |-> 114]),
    ([bad |-> {},aux |-> [props |-> <<>>, nextProp |-> 3],l |-> 115]),
    ([bad |-> {},aux |-> [props |-> <<>>, nextProp |-> 3],l |-> 116]),
    ([bad |-> {},aux |-> [props |-> <<>>, nextProp |-> 3],l |-> 117]),
    ([bad |-> {},aux |-> [props |-> <<>>, nextProp |-> 3],l |-> 118]),
    ([bad |-> {},aux |-> [props |-> <<>>, nextProp |-> 3],l |-> 119]),
    ([bad |-> {},aux |-> [props |-> <<>>, nextProp |-> 3],l |-> 120]),
    ([bad |-> {},aux |-> [props |-> <<>>, nextProp |-> 3],l |-> 121]),
    ([bad |-> {},aux |-> [props |-> <<>>, nextProp |-> 3],l |-> 122]),
    ([bad |-> {},aux |-> [props |-> <<>>, nextProp |-> 3],l |-> 123]),
    ([bad |-> {},aux |-> [props |-> <<>>, nextProp |-> 3],l |-> 124]),
    ([bad |-> {},aux |-> [props |-> <<>>, nextProp |-> 3],l |-> 125]),
    ([bad |-> {},aux |-> [props |-> <<>>, nextProp |-> 3],l |-> 126]),
    ([bad |-> {},aux |-> [props |-> <<>>, nextProp |-> 3],l |-> 127]),
    ([bad |-> {},aux |-> [props |-> <<>>, nextProp |-> 3],l |-> 128]),
    ([bad |-> {},aux |-> [props |-> <<>>, nextProp |-> 3],l |-> 129]),
    ([bad |-> {},aux |-> [props |-> <<>>, nextProp |-> 3],l |-> 130]),
    ([bad |-> {},aux |-> [props |-> <<>>, nextProp |-> 3],l |-> 131]),
    ([bad |-> {},aux |-> [props |-> <<>>, nextProp |-> 3],l |-> 132]),
    ([bad |-> {},aux |-> [props |-> <<>>, nextProp |-> 3],l |-> 133]),
    ([bad |-> {},aux |-> [props |-> <<>>, nextProp |-> 3],l |-> 134]),
    ([bad |-> {},aux |-> [props |-> <<>>, nextProp |-> 3],l |-> 135]),
    ([bad |-> {},aux |-> [props |-> <<>>, nextProp |-> 3],l |-> 136]),
    ([bad |-> {},aux |-> [props |-> <<>>, nextProp |-> 3],l |-> 137]),
    ([bad |-> {},aux |-> [props |-> <<>>, nextProp |-> 3],l |-> 138]),
    ([bad |-> {},aux |-> [props |-> <<>>, nextProp |-> 3],l |-> 139]),
    ([bad |-> {},aux |-> [props |-> <<>>, nextProp |-> 3],l |-> 140]),
    ([bad |-> {},aux |-> [props |-> <<>>, nextProp |-> 3],l |-> 141]),
    ([bad |-> {},aux |-> [props |-> <<>>, nextProp |-> 3],l |-> 142]),
    ([bad |-> {},aux |-> [props |-> <<>>, nextProp |-> 3],l |-> 143]),
    ([bad |-> {},aux |-> [props |-> <<>>, nextProp |-> 3],l |-> 144]),
    ([bad |-> {},aux |-> [props |-> <<>>, nextProp |-> 3],l |-> 145]),
    ([bad |-> {},aux |-> [props |-> <<>>, nextProp |-> 3],l |-> 146]),
    ([bad |-> {},aux |-> [props |-> <<>>, nextProp |-> 3],l |-> 147]),
    ([bad |-> {},aux |-> [props |-> <<>>, nextProp |-> 3],l |-> 148]),
    ([bad |-> {},aux |-> [props |-> <<>>, nextProp |-> 3],l |-> 149]),
    ([bad |-> {},aux |-> [props |-> <<>>, nextProp |-> 3],l |-> 150]),
    ([bad |-> {},aux |-> [props |-> <<>>, nextProp |-> 3],l |-> 151]),
    ([bad |-> {},aux |-> [props |-> <<>>, nextProp |-> 3],l |-> 152]),
    ([bad |-> {},aux |-> [props |-> <<>>, nextProp |-> 3],l |-> 153]),
    ([bad |-> {},aux |-> [props |-> <<>>, nextProp |-> 3],l |-> 154]),
    ([bad |-> {},aux |-> [props |-> <<>>, nextProp |-> 3],l |-> 155]),
    ([bad |-> {},aux |-> [props |-> <<>>, nextProp |-> 3],l |-> 156]),
    ([bad |-> {},aux |-> [props |-> <<>>, nextProp |-> 3],l |-> 157]),
    ([bad |-> {},aux |-> [props |-> <<>>, nextProp |-> 3],l |-> 158]),
    ([bad |-> {},aux |-> [props |-> <<>>, nextProp |-> 3],l |-> 159]),
    ([bad |-> {},aux |-> [props |-> <<>>, nextProp |-> 3],l |-> 160]),
    ([bad |-> {},aux |-> [props |-> <<>>, nextProp |-> 3],l |-> 161]),
    ([bad |-> {},aux |-> [props |-> <<>>, nextProp |-> 3],l |-> 162]),
    ([bad |-> {},aux |-> [props |-> <<>>, nextProp |-> 3],l |-> 163]),
    ([bad |-> {},aux |-> [props |-> <<>>, nextProp |-> 3],l |-> 164]),
    ([bad |-> {},aux |-> [props |-> <<>>, nextProp |-> 3],l |-> 165]),
    ([bad |-> {},aux |-> [props |-> <<>>, nextProp |-> 3],l |-> 166]),
    ([bad |-> {},aux |-> [props |-> <<>>, nextProp |-> 3],l |-> 167]),
    ([bad |-> {},aux |-> [props |-> <<>>, nextProp |-> 3],l |-> 168]),
    ([bad |-> {},aux |-> [props |-> <<>>, nextProp |-> 3],l |-> 169]),
    ([bad |-> {},aux |-> [props |-> <<>>, nextProp |-> 3],l |-> 170]),
    ([bad |-> {},aux |-> [props |-> <<>>, nextProp |-> 3],l |-> 171]),
    ([bad |-> {},aux |-> [props |-> <<>>, nextProp |-> 3],l |-> 172]),
    ([bad |-> {},aux |-> [props |-> <<>>, nextProp |-> 3],l |-> 173]),
    ([bad |-> {},aux |-> [props |-> <<>>, nextProp |-> 3],l |-> 174]),
    ([bad |-> {},aux |-> [props |-> <<>>, nextProp |-> 3],l |-> 175]),
    ([bad |-> {},aux |-> [props |-> <<>>, nextProp |-> 3],l |-> 176]),
    ([bad |-> {},aux |-> [props |-> <<>>, nextProp |-> 3],l |-> 177]),
    ([bad |-> {},aux |-> [props |-> <<>>, nextProp |-> 3],l |-> 178]),
    ([bad |-> {},aux |-> [props |-> <<>>, nextProp |-> 3],l |-> 179]),
    ([bad |-> {},aux |-> [props |-> <<>>, nextProp |-> 3],l |-> 180]),
    ([bad |-> {},aux |-> [props |-> <<>>, nextProp |-> 3],l |-> 181]),
    ([bad |-> {},aux |-> [props |-> <<>>, nextProp |-> 3],l |-> 182]),
    ([bad |-> {},aux |-> [props |-> <<>>, nextProp |-> 3],l |-> 183]),
    ([bad |-> {},aux |-> [props |-> <<>>, nextProp |-> 3],l |-> 184]),
    ([bad |-> {},aux |-> [props |-> <<>>, nextProp |-> 3],l |-> 185]),
    ([bad |-> {},aux |-> [props |-> <<>>, nextProp |-> 3],l |-> 186]),
    ([bad |-> {},aux |-> [props |-> <<>>, nextProp |-> 3],l |-> 187]),
    ([bad |-> {},aux |-> [props |-> <<[msgs |-> <<[t |-> "UpdParams", p |-> [denom |-> "nund", max |-> 3, def |-> 3, feeReg |-> 25, feeRec |-> 2, feePur |-> 2], authority |-> "gov", mod |-> "wrk"]>>, id |-> 3, end |-> 67000, yes |-> TRUE]>>, nextProp |-> 4],l |-> 188])
    >>
----


=============================================================================

---- CONFIG Trace_TTrace_1790556962 ----

INVARIANT
    _inv

CHECK_DEADLOCK
    \* CHECK_DEADLOCK off because of PROPERTY or INVARIANT above.
    FALSE

INIT
    _init

NEXT
    _next

CONSTANT
    _TETrace <- _trace

ALIAS
    _expression
=============================================================================
\* Generated on Mon Sep 28 00:56:05 UTC 2026