-------------------------------- MODULE Abci --------------------------------
(* Genesis export and import of the four custom modules, written section by  *)
(* section in the order and shape of the genesis code (C15).                 *)
(*   Export(s)  : the exported document (abstract)                           *)
(*   Import(g, s): the state of a fresh chain initialised from g; bank       *)
(*                 balances / supply / accounts are carried by the SDK       *)
(*                 modules' own genesis (trusted) and taken from s           *)
(*   ImportExport(s) = Import(Export(s), s)                                  *)
(* Import asserts, as the code does, that each escrow account's balance      *)
(* equals the module's holdings.                                             *)
EXTENDS Goals

GenCap == 20000      \* newest records exported per registration (MaxBlockSubmissionsKeepInState / MaxHashSubmissionsToExport)

------------------------------------------------------------------------------
ExportEnt(s) == [p |-> s.ent.p, startId |-> s.ent.next, po |-> s.ent.po, locked |-> s.ent.locked, spent |-> s.ent.spent,
                 totLocked |-> s.ent.totLocked, totLockedDen |-> s.ent.totLockedDen, totSpent |-> s.ent.totSpent,
                 wl |-> s.ent.wl, wlExtra |-> s.ent.wlExtra]
\* queues are rebuilt from the status of each order
IdsWith(po, status) == LET idx == SelectSeq([i \in DOMAIN po |-> i], LAMBDA i : po[i].st = status)
                       IN [j \in DOMAIN idx |-> po[idx[j]].id]
ImportEnt(g, s) == [s.ent EXCEPT !.p = g.p, !.next = g.startId, !.po = g.po,
                                 !.rq = IdsWith(g.po, "raised"), !.aq = IdsWith(g.po, "accepted"),
                                 !.locked = g.locked, !.spent = g.spent, !.totLocked = g.totLocked,
                                 !.totLockedDen = g.totLockedDen, !.totSpent = g.totSpent, !.wl = g.wl, !.wlExtra = g.wlExtra]

\* registries: the newest GenCap records; the counters are recomputed from what is exported
ExportCh(c) == LET blocks == LastN(c.recs, GenCap) IN
               [c EXCEPT !.recs = blocks, !.iter = [i \in DOMAIN blocks |-> blocks[i].h],
                         !.num = Len(blocks), !.low = IF blocks = <<>> THEN 0 ELSE blocks[1].h]
ExportReg(s, k) == [p |-> s[k].p, startId |-> s[k].next, ch |-> [i \in DOMAIN s[k].ch |-> WithStor(s[k].p, ExportCh(s[k].ch[i]))]]
ImportReg(g, s, k) == [s[k] EXCEPT !.p = g.p, !.next = g.startId, !.ch = [i \in DOMAIN g.ch |-> WithStor(g.p, g.ch[i])]]

ExportStr(s) == [p |-> s.str.p, s |-> s.str.s]
ImportStr(g, s) == [s.str EXCEPT !.p = g.p, !.s = g.s]

Export(s) == [ent |-> ExportEnt(s), wrk |-> ExportReg(s, "wrk"), bcn |-> ExportReg(s, "bcn"), str |-> ExportStr(s)]
Import(g, s) == [s EXCEPT !.ent = ImportEnt(g.ent, s), !.wrk = ImportReg(g.wrk, s, "wrk"), !.bcn = ImportReg(g.bcn, s, "bcn"),
                          !.str = ImportStr(g.str, s)]
ImportExport(s) == Import(Export(s), s)

\* the assertions InitGenesis makes (panics otherwise)
ImportAsserts(g, s) ==
  /\ \A d \in Denoms : BalOf(s, "ent", d) = (IF d = g.ent.totLockedDen THEN g.ent.totLocked ELSE 0)
  /\ \A d \in Denoms : BalOf(s, "stream", d) =
        SumOver([k \in DOMAIN g.str.s |-> IF g.str.s[k].den = d THEN g.str.s[k].dep ELSE 0], DOMAIN g.str.s)
ImportSucceeds(s) == ImportAsserts(Export(s), s)

\* the parts of the state the four modules own
Owned(s) == <<s.ent.p, s.ent.next, s.ent.po, s.ent.rq, s.ent.aq, s.ent.wl, s.ent.locked, s.ent.spent, s.ent.totLocked, s.ent.totSpent,
              s.wrk.p, s.wrk.next, s.wrk.ch, s.bcn.p, s.bcn.next, s.bcn.ch, s.str.p, s.str.s>>
WithinCap(s) == \A k \in {"wrk", "bcn"} : \A i \in DOMAIN s[k].ch : Len(s[k].ch[i].recs) <= GenCap

(* C15 on the model *)
RoundTrip(s) == WithinCap(s) => Owned(ImportExport(s)) = Owned(s)
ExportIdempotent(s) == Export(ImportExport(s)) = Export(s)
ImportedStateSound(s) == LET t == ImportExport(s) IN
   C03State(t) /\ C04State(t) /\ C08State(t) /\ C10State(t) /\ StoredParamsValid(t)
C15State(s) == ImportSucceeds(s) /\ RoundTrip(s) /\ ExportIdempotent(s) /\ ImportedStateSound(s)

(* C15 on observations: the original and the re-imported chain stepped in lockstep *)
Bisimilar(a, b) == /\ Owned(a) = Owned(b) /\ a.supply = b.supply /\ a.bal = b.bal
=============================================================================
