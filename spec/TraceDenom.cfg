SPECIFICATION TraceSpec
INVARIANT VectorsFromSpec
INVARIANT AtEnd
POSTCONDITION TraceAccepted
CHECK_DEADLOCK FALSE
