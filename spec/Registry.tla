------------------------------ MODULE Registry ------------------------------
(* x/wrkchain and x/beacon: one specification instantiated by the key        *)
(* k \in {"wrk", "bcn"}.  WRKChain: caller-chosen strictly increasing        *)
(* heights, five hashes; BEACON: consecutive timestamp ids from 1, one hash  *)
(* and the submit time.                                                      *)
(*                                                                           *)
(* st.aux.ever[k][i] = every record ever accepted for the i-th registration, *)
(* in acceptance order (observation variable kept by the MC / trace spec).   *)
(* st[k] = [p: [feeReg, feeRec, feePur, denom, def, max], next, start,       *)
(*          ch: Seq([id, owner, moniker, name, (genesis, type,) reg, last,   *)
(*                   num, low, limit, stor: [limit, used, max, maxp],        *)
(*                   recs: Seq(record), iter: Seq(key)])]                    *)
(* recs = what point queries return for every key ever accepted and still    *)
(* present; iter = keys found by iterating the store.                        *)
EXTENDS Enterprise

ChIdx(st, k, id) == id - st[k].start + 1
ChExists(st, k, id) == id >= st[k].start /\ id < st[k].next
ChOf(st, k, id) == st[k].ch[ChIdx(st, k, id)]

Remaining(p, limit) == IF limit >= p.max THEN 0 ELSE p.max - limit
StorOf(p, c) == [limit |-> c.limit, used |-> c.num, max |-> p.max, maxp |-> Remaining(p, c.limit)]
\* keep the reported storage consistent after any change of chain c under params p
WithStor(p, c) == [c EXCEPT !.stor = StorOf(p, c)]

MaxMoniker == 64
MaxName == 128
MaxHash == 66

------------------------------------------------------------------------------
(* stateless checks (ValidateBasic), m is the model-level message *)
StrLen(s) == Len(s)
RegBasicOk(k, m) ==
  /\ StrLen(m.moniker) > 0 /\ StrLen(m.moniker) <= MaxMoniker
  /\ StrLen(m.name) <= MaxName
  /\ (k = "bcn" => StrLen(m.name) > 0)
  /\ (k = "wrk" => StrLen(m.genesis) <= MaxHash)
RecBasicOk(k, m) ==
  /\ m.id # 0
  /\ IF k = "wrk"
     THEN /\ m.h # 0 /\ StrLen(m.bh) > 0 /\ StrLen(m.bh) <= MaxHash /\ StrLen(m.ph) <= MaxHash
          /\ StrLen(m.h1) <= MaxHash /\ StrLen(m.h2) <= MaxHash /\ StrLen(m.h3) <= MaxHash
     ELSE /\ StrLen(m.hash) > 0 /\ StrLen(m.hash) <= MaxHash /\ m.subt # 0
BuyBasicOk(k, m) == m.id # 0 /\ m.n # 0

------------------------------------------------------------------------------
Register(st, k, m) ==
  IF ~RegBasicOk(k, m) THEN Fail(st)
  ELSE LET id == st[k].next
           base == [id |-> id, owner |-> m.owner, moniker |-> m.moniker, name |-> m.name,
                    reg |-> NowSec(st), last |-> 0, num |-> 0, low |-> 0,
                    limit |-> st[k].p.def, hasLimit |-> TRUE, recs |-> <<>>, iter |-> <<>>,
                    stor |-> [limit |-> 0, used |-> 0, max |-> 0, maxp |-> 0]]
           c == IF k = "wrk" THEN base @@ [genesis |-> m.genesis, type |-> m.type] ELSE base
       IN OkOut([st EXCEPT ![k].ch = Append(@, WithStor(st[k].p, c)), ![k].next = @ + 1,
                          !.aux.ever[k] = Append(@, <<>>)], [id |-> id])

\* remove the record with key h
DropRec(recs, h) == SelectSeq(recs, LAMBDA r : r.h # h)

RecordWrk(st, m) ==
  LET k == "wrk" IN
  IF ~RecBasicOk(k, m) \/ ~ChExists(st, k, m.id) THEN Fail(st)
  ELSE LET c == ChOf(st, k, m.id) IN
  IF c.owner # m.owner \/ m.h <= c.last THEN Fail(st)
  ELSE LET r  == [h |-> m.h, bh |-> m.bh, ph |-> m.ph, h1 |-> m.h1, h2 |-> m.h2, h3 |-> m.h3,
                  st |-> NowSec(st), qowner |-> c.owner, qid |-> c.id]
           recs1 == Append(c.recs, r)
           iter1 == Append(c.iter, m.h)
           low1  == IF c.low = 0 THEN m.h ELSE c.low
           over  == c.num + 1 > c.limit /\ c.low > 0
           recs2 == IF over THEN DropRec(recs1, c.low) ELSE recs1
           iter2 == IF over THEN SeqRemove(iter1, c.low) ELSE iter1
           c2 == [c EXCEPT !.last = m.h, !.num = IF over THEN c.num ELSE c.num + 1,
                           !.low = IF over THEN (IF iter2 = <<>> THEN 0 ELSE Head(iter2)) ELSE low1,
                           !.recs = recs2, !.iter = iter2]
       IN OkOut([st EXCEPT ![k].ch[ChIdx(st, k, m.id)] = WithStor(st[k].p, c2),
                          !.aux.ever[k][ChIdx(st, k, m.id)] = Append(@, r)], [id |-> m.id, h |-> m.h])

RecordBcn(st, m) ==
  LET k == "bcn" IN
  IF ~RecBasicOk(k, m) \/ ~ChExists(st, k, m.id) THEN Fail(st)
  ELSE LET c == ChOf(st, k, m.id) IN
  IF c.owner # m.owner THEN Fail(st)
  ELSE LET t  == c.last + 1
           r  == [h |-> t, hash |-> m.hash, st |-> m.subt, qowner |-> c.owner, qid |-> c.id]
           low1 == IF c.low = 0 THEN t ELSE c.low
           over == c.num + 1 > c.limit
           recs1 == Append(c.recs, r)
           iter1 == Append(c.iter, t)
           c2 == [c EXCEPT !.last = t, !.num = IF over THEN c.num ELSE c.num + 1,
                           !.low = IF over THEN low1 + 1 ELSE low1,
                           !.recs = IF over THEN DropRec(recs1, low1) ELSE recs1,
                           !.iter = IF over THEN SeqRemove(iter1, low1) ELSE iter1]
       IN OkOut([st EXCEPT ![k].ch[ChIdx(st, k, m.id)] = WithStor(st[k].p, c2),
                          !.aux.ever[k][ChIdx(st, k, m.id)] = Append(@, r)], [id |-> m.id, h |-> t])

Record(st, k, m) == IF k = "wrk" THEN RecordWrk(st, m) ELSE RecordBcn(st, m)

(* storage purchase: arithmetic over the naturals *)
Purchase(st, k, m) ==
  IF ~BuyBasicOk(k, m) \/ ~ChExists(st, k, m.id) THEN Fail(st)
  ELSE LET c == ChOf(st, k, m.id) IN
  IF c.owner # m.owner \/ c.limit + m.n > st[k].p.max THEN Fail(st)
  ELSE LET c2 == [c EXCEPT !.limit = @ + m.n]
       IN OkOut([st EXCEPT ![k].ch[ChIdx(st, k, m.id)] = WithStor(st[k].p, c2)],
                [id |-> m.id, n |-> m.n, can |-> Remaining(st[k].p, c2.limit)])

------------------------------------------------------------------------------
RegParamsValid(p) ==
  /\ WellFormedDenom(p.denom)
  /\ p.feeReg >= 1 /\ p.feeRec >= 1 /\ p.feePur >= 1
  /\ p.def >= 1 /\ p.max >= 1 /\ p.def <= p.max
\* new parameters are visible in every reported storage figure at once
SetRegParams(st, k, p) ==
  IF ~RegParamsValid(p) THEN Fail(st)
  ELSE Ok([st EXCEPT ![k].p = p, ![k].ch = [i \in DOMAIN @ |-> WithStor(p, @[i])]])

------------------------------------------------------------------------------
(* registry fee arithmetic used by CheckTx admission *)
IsRegMsg(k, m) == IF k = "wrk" THEN m.t \in {"WReg", "WRec", "WBuy"} ELSE m.t \in {"BReg", "BRec", "BBuy"}
MsgFee(p, m) == IF m.t \in {"WReg", "BReg"} THEN p.feeReg
                ELSE IF m.t \in {"WRec", "BRec"} THEN p.feeRec
                ELSE p.feePur * m.n

------------------------------------------------------------------------------
(* State predicates of C07/C08/C09 on one chain record c with limit history *)
Keys(recs) == { recs[i].h : i \in DOMAIN recs }
CountersMatch(c) ==
  /\ c.num = Len(c.iter)
  /\ Keys(c.recs) = Range(c.iter)
  /\ (c.iter # <<>> => c.low = Head(c.iter))
  /\ (c.iter = <<>> => c.num = 0)
  /\ \A i \in 1..(Len(c.iter) - 1) : c.iter[i] < c.iter[i + 1]      \* strictly ascending (adjacent pairs: linear in the length)
  /\ (c.iter # <<>> => c.last >= Last(c.iter))
WithinLimit(c) == c.num <= c.limit
\* e = everything ever accepted for c (acceptance order = ascending key order)
LastN(e, n) == SubSeq(e, Len(e) - Min(Len(e), n) + 1, Len(e))
\* what is in state is a suffix of the acceptance history (pruned records never come back, so after the
\* limit was raised the suffix may be shorter than the limit; PruneOnlyWhenFull covers the rest)
InStateIsNewest(c, e) == c.recs = LastN(e, Len(c.recs)) /\ Len(c.recs) <= c.limit
EverKeysIncrease(k, e) == \A i \in DOMAIN e : IF k = "bcn" THEN e[i].h = i ELSE (i > 1 => e[i].h > e[i - 1].h)
HistoryOk(st, k) ==
  /\ Len(st.aux.ever[k]) = Len(st[k].ch)
  /\ \A i \in DOMAIN st[k].ch : InStateIsNewest(st[k].ch[i], st.aux.ever[k][i]) /\ EverKeysIncrease(k, st.aux.ever[k][i])
RegistryOk(st, k) ==
  /\ Len(st[k].ch) = st[k].next - st[k].start
  /\ \A i \in DOMAIN st[k].ch :
       LET c == st[k].ch[i] IN
       /\ c.id = st[k].start + i - 1
       /\ CountersMatch(c) /\ WithinLimit(c)
       /\ c.stor = StorOf(st[k].p, c)
=============================================================================
