----------------------------- MODULE TraceDenom -----------------------------
(* C19 trace validation: every line of the recording written by               *)
(* `vharness denom` is one call of the REAL ConvertUndDenomination on a       *)
(* vector that TLC emitted from Denom.tla (mc/MC_Denom.tla):                  *)
(*   {a: "Convert", args: {amount, from, to, expect, back, int, frac},        *)
(*    res: {ok, out, val, err, back: {ok, out, val, err}}}                    *)
(* The verdict is a comparison of STRINGS: the expected output string of the  *)
(* specification against the returned string with the denomination suffix and *)
(* insignificant leading zeros removed (res.val, stripped by the harness).    *)
(* The expected strings are RE-DERIVED here from the digit sequences of the   *)
(* vector (invariant VectorsFromSpec), so a recording whose expectations were *)
(* not produced by Denom.tla is rejected as a model error, not judged.        *)
EXTENDS Denom, Json, IOUtils

Trace == ndJsonDeserialize(IOEnv.TRACE_FILE)

VARIABLES l,        \* next line to judge
          bad       \* set of findings <<line, layer, property, detail>>
vars == <<l, bad>>

X(ev) == Dec(ev.args.int, ev.args.frac)
FundToNund(ev) == ev.args.from = "fund" /\ ev.args.to = "nund"
NundToFund(ev) == ev.args.from = "nund" /\ ev.args.to = "fund"

\* what the specification says the command prints for this vector (without the suffix)
Expected(ev) == IF FundToNund(ev) THEN NundStr(X(ev)) ELSE FundStr(ev.args.int)
ExpectedBack(ev) == BackStr(X(ev))

\* the vector's amount / expect / back strings are exactly what Denom.tla derives from its digits
FromSpec(ev) ==
  /\ ev.a = "Convert"
  /\ FundToNund(ev) \/ NundToFund(ev)
  /\ IsDigits(ev.args.int) /\ IsDigits(ev.args.frac) /\ Len(ev.args.int) >= 1
  /\ FundToNund(ev) => /\ CanToNund(X(ev))
                       /\ ev.args.amount = DecStr(X(ev))
                       /\ ev.args.back = ExpectedBack(ev)
  /\ NundToFund(ev) => /\ ev.args.frac = <<>> /\ WFNund(ev.args.int)
                       /\ ev.args.amount = Str(ev.args.int)
  /\ ev.args.expect = Expected(ev)

\* L1 monitors of C19 on one recorded call
Judge(ev) ==
  (IF ~ev.res.ok THEN {"ErrorOnValidInput"} ELSE {})
  \cup (IF ev.res.ok /\ ev.res.val # Expected(ev) THEN {"WrongResult"} ELSE {})
  \cup (IF FundToNund(ev) /\ ev.res.ok /\ (~ev.res.back.ok \/ ev.res.back.val # ExpectedBack(ev))
        THEN {"RoundTripNotIdentity"} ELSE {})
  \* the `und convert` command on the same amount, and on its zero-padded spelling (a decimal numeral with a leading zero
  \* denotes the same number): the same string
  \cup (IF "cli" \in DOMAIN ev.res /\ (~ev.res.cli.ok \/ ev.res.cli.val # Expected(ev)) THEN {"CommandWrongResult"} ELSE {})
  \cup (IF "cliPad" \in DOMAIN ev.res /\ (~ev.res.cliPad.ok \/ ev.res.cliPad.val # Expected(ev)) THEN {"CommandWrongResultOnZeroPaddedAmount"} ELSE {})

\* diagnostic: with EXPLAIN=<line> in the environment print expected and observed strings of that line
Explain(i) ==
  IF "EXPLAIN" \in DOMAIN IOEnv /\ IOEnv.EXPLAIN = ToString(i)
  THEN LET ev == Trace[i]
       IN PrintT(<<"EXPLAIN", ToJson([line |-> i, amount |-> ev.args.amount, from |-> ev.args.from, to |-> ev.args.to,
                                        findings |-> Judge(ev),
                                        expected |-> Expected(ev), observed |-> ev.res.val, returned |-> ev.res.out,
                                        error |-> ev.res.err,
                                        expectedRoundTrip |-> IF FundToNund(ev) THEN ExpectedBack(ev) ELSE "",
                                        observedRoundTrip |-> ev.res.back.out])>>)
  ELSE TRUE

TraceInit == l = 1 /\ bad = {}

TraceNext ==
  /\ l <= Len(Trace)
  /\ Explain(l)
  /\ bad' = bad \cup { <<l, "L1", "C19", d>> : d \in Judge(Trace[l]) }
  /\ l' = l + 1

TraceSpec == TraceInit /\ [][TraceNext]_vars

\* every judged vector is a vector of the specification
VectorsFromSpec == l <= Len(Trace) => FromSpec(Trace[l])

AtEnd == l = Len(Trace) + 1 => PrintT(<<"VERDICT", Len(Trace), ToJson(bad)>>)
TraceAccepted == TLCGet("stats").diameter = Len(Trace) + 1
=============================================================================
