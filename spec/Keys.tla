-------------------------------- MODULE Keys --------------------------------
(* C18  Distinct entities never alias each other's storage.                  *)
(*                                                                           *)
(* (i)  The store layout of DESIGN Appendix C as functions from LOGICAL keys *)
(*      (id, (id, height), address, (receiver, sender)) to BYTE SEQUENCES,   *)
(*      parametrised by the id width W (bytes) and a byte alphabet, with the *)
(*      statements that make the layout alias-free: Injective,               *)
(*      NoPrefixCapture, BigEndianOrderIsNumericOrder,                       *)
(*      StreamKeyParseRoundTrip (checked exhaustively by MC_Keys for small   *)
(*      W / alphabets; the real builders' outputs are compared against KeyB  *)
(*      with W = 8 by TraceKeys).                                            *)
(* (ii) The behavioural statement the real keepers are held to: every keeper *)
(*      section IS the ideal map  logicalKey |-> value  with operations Set, *)
(*      Delete, Get and Iterate (ascending logical key order).  State machine*)
(*      KV: variable `store`, actions KVSet(k, v), KVDel(k).                 *)
EXTENDS Integers, Sequences, FiniteSets

CONSTANTS W,            \* width of an id / height / timestamp id in bytes (8 in the code)
          Bytes,        \* byte alphabet the exhaustive checks range over
          MaxAddrLen    \* address lengths 1..MaxAddrLen (255 in the code)

------------------------------------------------------------------------------
(* byte strings *)
PrefixOf(p, s) == Len(p) <= Len(s) /\ \A i \in 1..Len(p) : p[i] = s[i]
MinN(x, y) == IF x <= y THEN x ELSE y
\* strict lexicographic order of byte strings = the order in which an IAVL / cachekv iterator visits keys
LexLess(x, y) ==
  \E i \in 1..(MinN(Len(x), Len(y)) + 1) :
     /\ \A j \in 1..(i - 1) : x[j] = y[j]
     /\ \/ i > Len(x) /\ i <= Len(y)
        \/ i <= Len(x) /\ i <= Len(y) /\ x[i] < y[i]

RECURSIVE Pow256(_)
Pow256(k) == IF k = 0 THEN 1 ELSE 256 * Pow256(k - 1)
\* w-byte big-endian encoding of the number n (binary.BigEndian.PutUint64 for w = 8)
BE(n, w) == [i \in 1..w |-> (n \div Pow256(w - i)) % 256]
RECURSIVE ValOf(_)
ValOf(d) == IF d = <<>> THEN 0 ELSE 256 * ValOf(SubSeq(d, 1, Len(d) - 1)) + d[Len(d)]

------------------------------------------------------------------------------
(* the layout table (DESIGN Appendix C).  kind: id = prefix|id, idh = prefix|id|height,               *)
(* addr = prefix|raw address, rs = prefix|len|receiver|len|sender, one = the prefix byte alone        *)
Layout == [
  po      |-> [mod |-> "ent", pfx |-> 1,   kind |-> "id"],
  locked  |-> [mod |-> "ent", pfx |-> 2,   kind |-> "addr"],
  wl      |-> [mod |-> "ent", pfx |-> 3,   kind |-> "addr"],
  rq      |-> [mod |-> "ent", pfx |-> 4,   kind |-> "id"],
  aq      |-> [mod |-> "ent", pfx |-> 5,   kind |-> "id"],
  spent   |-> [mod |-> "ent", pfx |-> 6,   kind |-> "addr"],
  entp    |-> [mod |-> "ent", pfx |-> 7,   kind |-> "one"],
  entnext |-> [mod |-> "ent", pfx |-> 32,  kind |-> "one"],
  enttsp  |-> [mod |-> "ent", pfx |-> 152, kind |-> "one"],
  enttlk  |-> [mod |-> "ent", pfx |-> 153, kind |-> "one"],
  wreg    |-> [mod |-> "wrk", pfx |-> 1,   kind |-> "id"],
  wrec    |-> [mod |-> "wrk", pfx |-> 2,   kind |-> "idh"],
  wlim    |-> [mod |-> "wrk", pfx |-> 3,   kind |-> "id"],
  wrkp    |-> [mod |-> "wrk", pfx |-> 4,   kind |-> "one"],
  wrknext |-> [mod |-> "wrk", pfx |-> 32,  kind |-> "one"],
  breg    |-> [mod |-> "bcn", pfx |-> 1,   kind |-> "id"],
  brec    |-> [mod |-> "bcn", pfx |-> 2,   kind |-> "idh"],
  blim    |-> [mod |-> "bcn", pfx |-> 3,   kind |-> "id"],
  bcnp    |-> [mod |-> "bcn", pfx |-> 4,   kind |-> "one"],
  bcnnext |-> [mod |-> "bcn", pfx |-> 32,  kind |-> "one"],
  strp    |-> [mod |-> "str", pfx |-> 1,   kind |-> "one"],
  str     |-> [mod |-> "str", pfx |-> 17,  kind |-> "rs"] ]

AllSections == DOMAIN Layout
Modules == {"ent", "wrk", "bcn", "str"}
SectionsOf(m) == { s \in AllSections : Layout[s].mod = m }

\* byte-level builder: the logical key's components are already byte strings
\* (kb.id / kb.h : W bytes big-endian; kb.addr, kb.r, kb.s : raw address bytes)
KeyB(sec, kb) ==
  LET L == Layout[sec] IN
  CASE L.kind = "id"   -> <<L.pfx>> \o kb.id
    [] L.kind = "idh"  -> <<L.pfx>> \o kb.id \o kb.h
    [] L.kind = "addr" -> <<L.pfx>> \o kb.addr
    [] L.kind = "rs"   -> <<L.pfx, Len(kb.r)>> \o kb.r \o <<Len(kb.s)>> \o kb.s
    [] L.kind = "one"  -> <<L.pfx>>

\* logical keys with NUMERIC ids (exhaustive checks, W <= 3 because TLC integers are 32-bit)
Enc(sec, k) ==
  LET L == Layout[sec] IN
  CASE L.kind = "id"  -> [id |-> BE(k.id, W)]
    [] L.kind = "idh" -> [id |-> BE(k.id, W), h |-> BE(k.h, W)]
    [] OTHER -> k
Key(sec, k) == KeyB(sec, Enc(sec, k))

\* the logical key spaces of the exhaustive checks
IdNums == { ValOf(d) : d \in [1..W -> Bytes] }
Addrs == UNION { [1..n -> Bytes] : n \in 1..MaxAddrLen }
LKeys(sec) ==
  LET L == Layout[sec] IN
  CASE L.kind = "id"   -> [id : IdNums]
    [] L.kind = "idh"  -> [id : IdNums, h : IdNums]
    [] L.kind = "addr" -> [addr : Addrs]
    [] L.kind = "rs"   -> [r : Addrs, s : Addrs]
    [] L.kind = "one"  -> {[u |-> 0]}

------------------------------------------------------------------------------
(* (i) statements about the layout; (sa, a) and (sb, b) are two entities of the same module *)

\* distinct entities (of the same or of different sections of one store) have distinct keys
Injective(sa, a, sb, b) == Key(sa, a) = Key(sb, b) => (sa = sb /\ a = b)

\* the prefix scans the modules perform: the whole section, all records of one registration,
\* all streams of one receiver
SectionScan(sec) == <<Layout[sec].pfx>>
HasSubScan(sec) == Layout[sec].kind \in {"idh", "rs"}
SubScan(sec, k) ==
  IF Layout[sec].kind = "idh" THEN <<Layout[sec].pfx>> \o BE(k.id, W)
  ELSE <<Layout[sec].pfx, Len(k.r)>> \o k.r
SameScanGroup(sec, a, b) == IF Layout[sec].kind = "idh" THEN a.id = b.id ELSE a.r = b.r
\* a scan started for entity a sees entity b iff b logically belongs to it
NoPrefixCapture(sa, a, sb, b) ==
  /\ PrefixOf(SectionScan(sa), Key(sb, b)) <=> (sb = sa)
  /\ HasSubScan(sa) => (PrefixOf(SubScan(sa, a), Key(sb, b)) <=> (sb = sa /\ SameScanGroup(sa, a, b)))

\* ascending key order = ascending numeric (id, height) order
Numeric(sec) == Layout[sec].kind \in {"id", "idh"}
NumLess(sec, a, b) ==
  IF Layout[sec].kind = "id" THEN a.id < b.id
  ELSE a.id < b.id \/ (a.id = b.id /\ a.h < b.h)
BigEndianOrderIsNumericOrder(sa, a, sb, b) ==
  (sa = sb /\ Numeric(sa)) => (LexLess(Key(sa, a), Key(sb, b)) <=> NumLess(sa, a, b))
BEIsInverseOfValOf == \A d \in [1..W -> Bytes] : BE(ValOf(d), W) = d

\* x/stream/types.AddressesFromStreamKey and FirstAddressFromStreamStoreKey, as specified
ParseStreamKey(key) ==
  LET rl == key[2]
      sl == key[3 + rl]
  IN [r |-> SubSeq(key, 3, 2 + rl), s |-> SubSeq(key, 4 + rl, 3 + rl + sl), total |-> 3 + rl + sl]
ParseSenderBehindReceiverPrefix(key, rcv) ==
  LET rest == SubSeq(key, 3 + Len(rcv), Len(key)) IN SubSeq(rest, 2, 1 + rest[1])
StreamKeyParseRoundTrip(k) ==
  LET key == Key("str", k)
      p == ParseStreamKey(key)
  IN /\ p.r = k.r /\ p.s = k.s /\ p.total = Len(key)
     /\ ParseSenderBehindReceiverPrefix(key, k.r) = k.s

\* everything (i) says about one ordered pair of entities of one module
PairOK(sa, a, sb, b) ==
  /\ Injective(sa, a, sb, b)
  /\ NoPrefixCapture(sa, a, sb, b)
  /\ BigEndianOrderIsNumericOrder(sa, a, sb, b)
  /\ (sa = "str" => StreamKeyParseRoundTrip(a))
LayoutWellFormed ==
  /\ \A s, t \in AllSections : (Layout[s].mod = Layout[t].mod /\ Layout[s].pfx = Layout[t].pfx) => s = t
  /\ \A s \in AllSections : Layout[s].pfx \in 0..255

------------------------------------------------------------------------------
(* (ii) the ideal keeper section: a finite map from logical keys to values *)
Absent == -1                                   \* what Get reports for a key that is not stored
EmptyStore == [k \in {} |-> 0]
Put(st, k, v) == [x \in (DOMAIN st) \cup {k} |-> IF x = k THEN v ELSE st[x]]
Remove(st, k) == [x \in (DOMAIN st) \ {k} |-> st[x]]
Get(st, k) == IF k \in DOMAIN st THEN st[k] ELSE Absent
\* ord: all logical keys of the section as a sequence in ascending logical (numeric) order
KeysInOrder(st, ord) == SelectSeq(ord, LAMBDA k : k \in DOMAIN st)
Iterate(st, ord) == [i \in 1..Len(KeysInOrder(st, ord)) |-> <<KeysInOrder(st, ord)[i], st[KeysInOrder(st, ord)[i]]>>]

VARIABLE store
KVInit == store = EmptyStore
KVSet(k, v) == store' = Put(store, k, v)
KVDel(k) == store' = Remove(store, k)

\* meta-properties of the ideal map (checked on the model, demanded of the code by TraceKeys)
SeqRange(s) == { s[i] : i \in DOMAIN s }
NonInterference(st, st2, k, Keys_) == \A j \in Keys_ \ {k} : Get(st2, j) = Get(st, j)
IterateExact(st, ord) ==
  LET it == Iterate(st, ord) IN
  /\ Len(it) = Cardinality(DOMAIN st)
  /\ SeqRange(it) = { <<k, st[k]>> : k \in DOMAIN st }
  /\ \A i, j \in DOMAIN it : i < j =>
       \E p, q \in DOMAIN ord : p < q /\ ord[p] = it[i][1] /\ ord[q] = it[j][1]
=============================================================================
