------------------------------- MODULE SW_Reg -------------------------------
(* Alphabet sweep over MC_Reg: a scripted prefix prepares a state, then EVERY *)
(* transaction class of the alphabet is executed once (no rationing), then a *)
(* scripted tail runs.  One event per TLC step (a script counter), explored  *)
(* breadth-first; every complete behaviour is replayed on the real app.      *)
EXTENDS MC_Reg

VARIABLE todo      \* events still to execute in the current script segment
swvars == <<st, phase, hist, nTx, nFail, todo>>

SweepTail == <<EndEv, ComEv, [a |-> "BeginBlock", dt |-> 1000], EndEv, ComEv>>

\* degenerate inputs: id / height / slot count zero, empty hashes
Degenerate ==
  { FeeTx(<<WRec("A1", id, h)>>) : id \in {0, 1}, h \in {0} }
  \cup { FeeTx(<<[WRec("A1", 1, LastOf("wrk", 1) + 1) EXCEPT !.bh = ""]>>), FeeTx(<<[BRec("A1", 1) EXCEPT !.hash = ""]>>), FeeTx(<<[BRec("A1", 1) EXCEPT !.subt = 0]>>),
         FeeTx(<<BRec("A1", 0)>>), FeeTx(<<WBuy("A1", 1, 0)>>), FeeTx(<<WBuy("A1", 0, 1)>>), FeeTx(<<BBuy("A1", 1, 0)>>), FeeTx(<<BBuy("A1", 0, 1)>>),
         FeeTx(<<[t |-> "BReg", owner |-> "A2", moniker |-> "m", name |-> ""]>>) }
  \* white space at the edges of a moniker / name, a moniker of blanks only: stored exactly as submitted
  \cup { FeeTx(<<[t |-> "BReg", owner |-> "A2", moniker |-> mn[1], name |-> mn[2]]>>) : mn \in {<<" m ", "n">>, <<"m", " n ">>, <<"   ", "n">>} }
  \cup { FeeTx(<<[t |-> "WReg", owner |-> "A2", moniker |-> " m ", name |-> " n", genesis |-> "g ", type |-> "t"]>>) }
SweepAlphabet == TxAlphabet \cup Degenerate

SwInit ==  /\ st = StateOf(Gen) /\ hist = <<[a |-> "InitChain", g |-> Gen]>>
          /\ todo = SweepPrefix /\ phase = "prefix" /\ nTx = 0 /\ nFail = 0
SwRun == /\ todo # <<>>
         /\ st' = Step(st, Head(todo)).st /\ hist' = Append(hist, Head(todo)) /\ todo' = Tail(todo)
         /\ UNCHANGED <<phase, nTx, nFail>>
SwChoose == /\ todo = <<>> /\ phase = "prefix"
            /\ \E ev \in SweepAlphabet :
                 /\ st' = Step(st, ev).st /\ hist' = Append(hist, ev)
                 /\ todo' = SweepTail /\ phase' = "tail" /\ nTx' = 1 /\ UNCHANGED nFail
SwDone == todo = <<>> /\ phase = "tail" /\ phase' = "done" /\ UNCHANGED <<st, hist, nTx, nFail, todo>>
SwSpec == SwInit /\ [][SwRun \/ SwChoose \/ SwDone]_swvars
SwStepProps == [][ hist' # hist => LET ev == hist'[Len(hist')] IN C07Step(st, st', ev) /\ C08Step(st, st', ev) /\ C09Step(st, st', ev) /\ C02Step(st, st', ev) ]_swvars
=============================================================================
