\* C19 thorough: every input with <= 3 integer and <= 2 fractional digits over ALL ten digits
SPECIFICATION SpecEx
CONSTANTS
  Digits = {0, 1, 2, 3, 4, 5, 6, 7, 8, 9}
  MaxInt = 3
  MaxFrac = 2
  MinSig = 1
  MaxSig = 5
INVARIANT TypeOK
INVARIANT Props
INVARIANT Rendering
INVARIANT EmitAll
CHECK_DEADLOCK FALSE
