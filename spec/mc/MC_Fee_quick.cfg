SPECIFICATION Spec
CONSTANTS
  MaxHeight = 4
  MaxTx = 5
  MaxFail = 1
  Amounts <- AmountsQuick
VIEW View
INVARIANT Inv
PROPERTY StepProps
PROPERTY GoalEmit
CHECK_DEADLOCK FALSE
