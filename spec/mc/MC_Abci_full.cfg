SPECIFICATION Spec
CONSTANTS
  MaxHeight = 3
  MaxTx = 3
  MaxCrash = 2
VIEW View
INVARIANT Inv
PROPERTY CrashKeepsDisk
CHECK_DEADLOCK FALSE
