------------------------------- MODULE MC_Fee -------------------------------
(* Bounded model of the transaction pipeline around locked eFUND (C04, C05,  *)
(* C02, C14): purchase orders completing, then fee-paying WRKChain / BEACON  *)
(* transactions by payers with every relation of locked / liquid balance to  *)
(* the fee; missing, exact, higher and multi-denomination fees; bad          *)
(* signatures after the unlock ran; multi-message transactions whose k-th    *)
(* message fails; transfers aimed at the escrow account; a non-registry      *)
(* transaction paying a fee while eFUND is locked.                           *)
EXTENDS Genesis

CONSTANTS MaxHeight, MaxTx, MaxFail, Amounts, WithFeeGrant
VARIABLES st, phase, hist, nTx, nFail
vars == <<st, phase, hist, nTx, nFail>>

Accts == <<"A1", "A3", "A4">>
AcctSet == Range(Accts)

Gen == [accts |-> Accts,
        bal |-> [a \in AcctSet |-> IF a = "A1" THEN [nund |-> 300, other |-> 5] ELSE [nund |-> 10, other |-> 2]],
        ent |-> [signers |-> <<"A1">>, min |-> 1, limit |-> 3, denom |-> "nund", wl |-> <<"A3", "A4">>, startId |-> 1],
        wrk |-> [feeReg |-> 24, feeRec |-> 2, feePur |-> 3, denom |-> "nund", def |-> 2, max |-> 4, startId |-> 1],
        bcn |-> [feeReg |-> 12, feeRec |-> 1, feePur |-> 5, denom |-> "nund", def |-> 2, max |-> 4, startId |-> 1],
        str |-> [feeNum |-> 1, feeDen |-> 100]]

Pre == <<>>     \* no scripted prefix in this model
Init == /\ st = FoldL(LAMBDA ev, s : Step(s, ev).st, StateOf(Gen), Pre)
        /\ phase = (IF Pre = <<>> THEN "idle" ELSE "block")
        /\ hist = <<[a |-> "InitChain", g |-> Gen]>> \o Pre /\ nTx = 0 /\ nFail = 0 /\ GoalRegsInit

WReg(o) == [t |-> "WReg", owner |-> o, moniker |-> "m", name |-> "n", genesis |-> "g", type |-> "t"]
BReg(o) == [t |-> "BReg", owner |-> o, moniker |-> "m", name |-> "n"]
WRec(o, id, h) == [t |-> "WRec", owner |-> o, id |-> id, h |-> h, bh |-> "b", ph |-> "", h1 |-> "", h2 |-> "", h3 |-> ""]
BRec(o, id)    == [t |-> "BRec", owner |-> o, id |-> id, hash |-> "x", subt |-> 7]
Exact(msgs) == SumFees(st.wrk.p, TopOps(msgs, "wrk")) + SumFees(st.bcn.p, TopOps(msgs, "bcn"))
LastW(id) == IF ChExists(st, "wrk", id) THEN ChOf(st, "wrk", id).last ELSE 0

RegMsgs(o) == { <<WReg(o)>>, <<BReg(o)>>, <<WRec(o, 1, LastW(1) + 1)>>, <<BRec(o, 1)>>,
                <<WRec(o, 1, LastW(1) + 1), WRec(o, 1, LastW(1) + 1)>>,       \* second message fails: ante effects stay
                <<BRec(o, 1), WReg(o)>> }
FeeVariants(msgs) ==
   { TxFee(msgs, [nund |-> Exact(msgs)]),
     TxFee(msgs, [nund |-> Exact(msgs) + 1]),
     TxFee(msgs, [nund |-> Exact(msgs), other |-> 1]),
     TxFee(msgs, <<>>),
     [TxFee(msgs, [nund |-> Exact(msgs)]) EXCEPT !.a = "DeliverTx"] @@ [badSig |-> TRUE] }

TxAlphabet ==
     { Tx(<<[t |-> "Raise", pur |-> a, amt |-> n, denom |-> "nund"]>>) : a \in {"A3", "A4"}, n \in Amounts }
  \cup { Tx(<<[t |-> "Decide", signer |-> "A1", id |-> i, d |-> "accept"]>>) : i \in 1..2 }
  \cup UNION { FeeVariants(m) : m \in RegMsgs("A3") }
  \cup { TxFee(<<WReg("A1")>>, [nund |-> 24]), TxFee(<<WRec("A1", 1, LastW(1) + 1)>>, [nund |-> 2]) }
  \cup { Tx(<<[t |-> "Send", from |-> "A1", to |-> x, amt |-> 5, denom |-> "nund"]>>) : x \in {"ent", "A3"} }
  \cup { TxFee(<<[t |-> "Send", from |-> "A3", to |-> "A1", amt |-> 1, denom |-> "nund"]>>, [nund |-> 1]) }
  \cup { TxFee(<<[t |-> "Exec", grantee |-> "A3", msgs |-> <<WRec("A3", 1, LastW(1) + 1)>>]>>, [nund |-> 2]) }
  \* a parameter update of a registry module sent by a holder of locked eFUND who names itself as authority (refused when it
  \* executes): a message OF the module, not a registry operation - the fee is paid from liquid funds, nothing is unlocked
  \cup { TxFee(<<[t |-> "UpdParams", mod |-> k, authority |-> "A3", p |-> st[k].p]>>, [nund |-> 2]) : k \in {"wrk", "bcn"} }
  \* storage purchases by a holder of locked eFUND: two for one WRKChain that are each within the purchasable amount but
  \* together above it (refused before execution), the same within it, and one for an id that was never registered
  \cup { TxFee(<<[t |-> "WBuy", owner |-> "A3", id |-> 1, n |-> ab[1]], [t |-> "WBuy", owner |-> "A3", id |-> 1, n |-> ab[2]]>>, [nund |-> 3 * (ab[1] + ab[2])]) : ab \in {<<2, 1>>, <<1, 1>>} }
  \cup { TxFee(<<[t |-> "WBuy", owner |-> "A3", id |-> 9, n |-> 1]>>, [nund |-> 3]) }
  \* ... and the same two shapes for a BEACON of the holder
  \cup { TxFee(<<[t |-> "BBuy", owner |-> "A3", id |-> 1, n |-> ab[1]], [t |-> "BBuy", owner |-> "A3", id |-> 1, n |-> ab[2]]>>, [nund |-> 5 * (ab[1] + ab[2])]) : ab \in {<<2, 1>>, <<1, 1>>} }
  \* fee allowances: A1 (and A4, who is poor) let A3 pay fees from their accounts; A3's registry transactions then name a granter
  \cup (IF ~WithFeeGrant THEN {} ELSE
       { Tx(<<[t |-> x, granter |-> g, grantee |-> "A3"]>>) : x \in {"FGrant", "FRevoke"}, g \in {"A1", "A4"} }
  \cup { TxFee(m, [nund |-> Exact(m)]) @@ [granter |-> g] : m \in {<<BReg("A3")>>, <<BRec("A3", 1)>>, <<WReg("A3")>>}, g \in {"A1", "A4"} }
  \cup { TxFee(<<[t |-> "Send", from |-> "A3", to |-> "A1", amt |-> 1, denom |-> "nund"]>>, [nund |-> 1]) @@ [granter |-> "A1"] }
  \* explicit fee payers (the payer signs too): A1 sponsors the registry fees of A3, who holds locked eFUND; A3 sponsors A1's
  \cup { TxFee(m, [nund |-> Exact(m)]) @@ [payer |-> "A1"] : m \in {<<BReg("A3")>>, <<BRec("A3", 1)>>, <<WRec("A3", 1, LastW(1) + 1)>>} }
  \cup { TxFee(m, [nund |-> Exact(m)]) @@ [payer |-> "A3"] : m \in {<<WReg("A1")>>, <<WRec("A1", 1, LastW(1) + 1)>>} }
  \* A3's registry transactions naming a fee granter, signed by a stranger's key only (with and without an allowance)
  \cup { TxFee(m, [nund |-> Exact(m)]) @@ [granter |-> g, signers |-> <<"A4">>] : m \in {<<BRec("A3", 1)>>, <<BReg("A3")>>}, g \in {"A1", "A4"} })

Do(ev, ph) ==
  LET r == Step(st, ev) IN
  /\ st' = r.st /\ hist' = Append(hist, ev) /\ phase' = ph
  /\ IF ev.a = "DeliverTx"
     THEN /\ nTx' = nTx + 1 /\ nFail' = IF r.ok THEN nFail ELSE nFail + 1
          /\ (r.ok \/ nFail < MaxFail)
     ELSE UNCHANGED <<nTx, nFail>>

Next ==
  \/ /\ phase = "idle" /\ st.height < 2 + MaxHeight /\ ~st.halted
     /\ Do([a |-> "BeginBlock", dt |-> 1000], "block")
  \/ /\ phase = "block" /\ nTx < MaxTx /\ ~st.halted
     /\ \E ev \in TxAlphabet :
          /\ (ev.msgs[1].t = "Raise" => PoCount(st) < 2)
          /\ Do(ev, "block")
  \/ /\ phase = "block" /\ ~st.halted
     /\ LET r1 == Step(st, EndEv)  r2 == Step(r1.st, ComEv) IN
        st' = r2.st /\ hist' = hist \o <<EndEv, ComEv>> /\ phase' = "idle" /\ UNCHANGED <<nTx, nFail>>

Finish == phase = "idle" /\ (st.height >= 2 + MaxHeight \/ nTx >= MaxTx) /\ phase' = "done" /\ UNCHANGED <<st, hist, nTx, nFail>>
Spec == Init /\ [][Next]_vars
SpecSim == Init /\ [][Next \/ Finish]_vars
View == <<st, phase, nTx, nFail>>

AmountsQuick == {3}
AmountsFull == {3, 30}

Inv == C03State(st) /\ C04State(st) /\ C02StateModel(st) /\ NotHalted(st) /\ C08State(st) /\ C15State(st)
StepProps == [][ hist' # hist =>
                 LET ev == hist'[Len(hist')] IN
                 C03Step(st, st', ev) /\ C04Step(st, st', ev) /\ C02Step(st, st', ev) /\ C05Step(st, st', ev) /\ C09Step(st, st', ev) ]_vars
\* coverage goals: print the behaviours that exercise the rare situations of Goals.tla (every explored transition)
GoalEmit == [][ GoalStep(st, hist, st', hist') ]_vars
Emit == phase = "done" => PrintT(<<"TRACE", ToJson(hist)>>)
\* vacuity witnesses
W_PartialUnlock == ~\E a \in AcctSet : st.ent.spent[a] > 0 /\ st.ent.locked[a] > 0
W_FullUnlock == ~\E a \in AcctSet : st.ent.spent[a] > 0 /\ st.ent.locked[a] = 0

SweepPrefix(n) == << [a |-> "BeginBlock", dt |-> 1000],
                  Tx(<<[t |-> "Raise", pur |-> "A3", amt |-> n, denom |-> "nund"]>>),
                  Tx(<<[t |-> "Decide", signer |-> "A1", id |-> 1, d |-> "accept"]>>),
                  TxFee(<<WReg("A1")>>, [nund |-> 24]),
                  EndEv, ComEv, [a |-> "BeginBlock", dt |-> 1000], EndEv, ComEv, [a |-> "BeginBlock", dt |-> 1000],
                  \* the holder of locked eFUND registers a BEACON of its own (paid out of what was minted for it)
                  TxFee(<<BReg("A3")>>, [nund |-> 12]) >>
=============================================================================
