--------------------------- MODULE ArithInductive ---------------------------
(* C11, unbounded: "at every moment the remaining deposit suffices to sustain  *)
(* the flow rate from the last release until the advertised deposit-zero      *)
(* time" (StreamArith!ASustained) is preserved by every stream operation of   *)
(* StreamArith.tla, for ALL integers: deposits, rates, amounts and times are  *)
(* symbolic, only the well-formedness of a stored stream is assumed.          *)
(* Checked by Apalache as invariants of the initial states (--length=0), one  *)
(* per operation: Pre /\ ASustained(x) => ASustained(Op(x).x).                *)
EXTENDS Integers, StreamArith

VARIABLES
  \* @type: Int;
  dep,
  \* @type: Int;
  rate,
  \* @type: Int;
  last,
  \* @type: Int;
  dzt,
  \* @type: Int;
  now,
  \* @type: Int;
  amt,
  \* @type: Int;
  r2,
  \* @type: Int;
  num,
  \* @type: Int;
  den

Unit == 1000000000
X == [dep |-> dep, rate |-> rate, last |-> last, dzt |-> dzt, live |-> TRUE]

Init == /\ dep \in Nat /\ rate \in Nat /\ rate >= 1
        /\ last \in Int /\ dzt \in Int /\ now \in Int /\ now >= last          \* block time never goes back
        /\ amt \in Nat /\ amt >= 1 /\ r2 \in Nat /\ r2 >= 1
        /\ den \in {1, 2, 3, 10, 100} /\ num \in 0..den
Next == UNCHANGED <<dep, rate, last, dzt, now, amt, r2, num, den>>

\* the inductive invariant: Sustained, a drained stream's zero time is not in the future, the release clock is not
\* ahead of the block time (both stay true when only time passes)
\* @type: ({dep: Int, rate: Int, last: Int, dzt: Int, live: Bool}, Int) => Bool;
IndInv(x, t) == ASustained(x, Unit) /\ (x.live => ((x.dep = 0 => x.dzt <= t) /\ x.last <= t /\ x.dep >= 0 /\ x.rate >= 1))
Pre == IndInv(X, now)
PreservedByClaim  == Pre => LET e == AClaim(X, now, Unit, num, den) IN e.ok => IndInv(e.x, now)
PreservedByTopUp  == Pre => LET e == ATopUp(X, amt, now, Unit, num, den, amt) IN e.ok => IndInv(e.x, now)
PreservedByRate   == Pre => LET e == ARate(X, r2, now, Unit, num, den) IN e.ok => IndInv(e.x, now)
PreservedByCancel == Pre => LET e == ACancel(X, now, Unit, num, den) IN e.ok => IndInv(e.x, now)
EstablishedByCreate == LET e == ACreate(amt, rate, now, Unit, amt) IN e.ok => IndInv(e.x, now)
\* time passing alone preserves it
PreservedByTime == (Pre /\ amt >= 0) => IndInv(X, now + amt)
\* a consequence worth stating: a claim before the zero time never drains the stream
ClaimBeforeZeroTimeLeavesDeposit == Pre => LET e == AClaim(X, now, Unit, num, den) IN (e.ok /\ now < dzt) => e.x.dep > 0
\* sanity (must be VIOLATED, showing that the checks are not vacuous): without the invariant a top-up breaks Sustained
Vacuity_TopUpWithoutInvariant == LET e == ATopUp(X, amt, now, Unit, num, den, amt) IN (e.ok /\ ASustained(X, Unit)) => ASustained(e.x, Unit)
Vacuity_ClaimPaysNothing == Pre => LET e == AClaim(X, now, Unit, num, den) IN e.ok => e.pay = 0
\* conservation of one operation: what leaves the stream is what the parties receive
ConservedByClaim == LET e == AClaim(X, now, Unit, num, den) IN e.ok => (e.pay + e.fee + e.x.dep = dep /\ e.pay >= 0 /\ e.fee >= 0 /\ e.x.dep >= 0)
ConservedByCancel == LET e == ACancel(X, now, Unit, num, den) IN e.ok => (e.pay + e.fee + e.ref = dep /\ e.ref >= 0)
=============================================================================
