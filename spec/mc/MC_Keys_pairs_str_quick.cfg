SPECIFICATION PairSpec
CONSTANTS
  W = 1
  Bytes = {0, 1, 2, 3}
  MaxAddrLen = 2
  PairModules = {"str"}
  MaxLen = 0
INVARIANT PairInv
CHECK_DEADLOCK FALSE
