\* C19 thorough: EVERY fractional length 0..9, <= 2 integer digits, over {0,1,9}
SPECIFICATION SpecEx
CONSTANTS
  Digits = {0, 1, 9}
  MaxInt = 2
  MaxFrac = 9
  MinSig = 1
  MaxSig = 11
INVARIANT TypeOK
INVARIANT Props
INVARIANT Rendering
INVARIANT EmitAll
CHECK_DEADLOCK FALSE
