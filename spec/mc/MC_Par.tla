------------------------------- MODULE MC_Par -------------------------------
(* C16: parameter structures with each field at, inside and outside its      *)
(* bounds, submitted through a real governance proposal from a prepared      *)
(* state, followed by one probe per dependent rule (tally, fee unlock, limit *)
(* at registration, storage purchase up to max, fee split at claim).         *)
(* Explored breadth-first; every behaviour is replayed on the real app.      *)
EXTENDS Genesis

VARIABLES st, phase, hist, nTx, todo
vars == <<st, phase, hist, nTx, todo>>

Accts == <<"A1", "A2", "A3", "A4">>
AcctSet == Range(Accts)
Big63 == 500001000      \* abstraction code of 2^63
Big64 == 500002999      \* abstraction code of 2^64 - 1

Gen == [accts |-> Accts,
        bal |-> [a \in AcctSet |-> [nund |-> 500, other |-> 100]],
        ent |-> [signers |-> <<"A1", "A2">>, min |-> 1, limit |-> 50, denom |-> "nund", wl |-> <<"A3">>, startId |-> 1],
        wrk |-> [feeReg |-> 4, feeRec |-> 1, feePur |-> 1, denom |-> "nund", def |-> 2, max |-> 4, startId |-> 1],
        bcn |-> [feeReg |-> 4, feeRec |-> 1, feePur |-> 1, denom |-> "nund", def |-> 2, max |-> 4, startId |-> 1],
        str |-> [feeNum |-> 1, feeDen |-> 10]]

WReg(o) == [t |-> "WReg", owner |-> o, moniker |-> "m", name |-> "n", genesis |-> "g", type |-> "t"]
BReg(o) == [t |-> "BReg", owner |-> o, moniker |-> "m", name |-> "n"]
Prefix == << [a |-> "BeginBlock", dt |-> 1000],
             Tx(<<[t |-> "Raise", pur |-> "A3", amt |-> 7, denom |-> "nund"]>>),
             TxFee(<<WReg("A1")>>, [nund |-> 4]), TxFee(<<BReg("A1")>>, [nund |-> 4]),
             Tx(<<[t |-> "SCreate", sender |-> "A1", receiver |-> "A2", dep |-> 200, denom |-> "nund", rate |-> 1]>>),
             EndEv, ComEv, [a |-> "BeginBlock", dt |-> 1000] >>

EntNom == [signers |-> <<"A1", "A2">>, min |-> 2, limit |-> 3, denom |-> "nund"]
EntVariants ==
     { [EntNom EXCEPT !.signers = s] : s \in { <<"A1">>, <<"A2", "A4">>, <<>>, <<"A1", "BAD">>, <<"A1", "">>, <<"A1", "A1">>, <<"A1", "A2", "A4">>,
                                              <<"A1", " A2">>, <<"A1 ", "A2">>, <<" A1">> } }
  \cup { [EntNom EXCEPT !.min = n] : n \in {0, 1, 2, 3, Big63, Big64} }
  \cup { [EntNom EXCEPT !.limit = n] : n \in {0, 1, Big64} }
  \cup { [EntNom EXCEPT !.denom = d] : d \in {"", " ", "1x", "other"} }
  \cup { [signers |-> <<"A4">>, min |-> 1, limit |-> 1, denom |-> "nund"] }
RegNom == [feeReg |-> 6, feeRec |-> 2, feePur |-> 3, denom |-> "nund", def |-> 1, max |-> 3]
RegVariants ==
     { [RegNom EXCEPT !.feeReg = n] : n \in {0, 1, Big64} }
  \cup { [RegNom EXCEPT !.feeRec = n] : n \in {0, 7} }
  \cup { [RegNom EXCEPT !.feePur = n] : n \in {0, 2} }
  \cup { [RegNom EXCEPT !.def = a, !.max = b] : a \in {0, 1, 3, 5}, b \in {0, 1, 3, Big64} }
  \cup { [RegNom EXCEPT !.denom = d] : d \in {"", " ", "1x", "other"} }
StrVariants == { [feeNum |-> a, feeDen |-> b] : <<a, b>> \in { <<0, 1>>, <<1, 2>>, <<1, 1>>, <<3, 2>>, <<-1, 2>>, <<1, 100>>,
                                                                     <<101, 100>>, <<1005, 1000>>, <<1000001, 1000000>> } }   \* just above 1

Updates == { <<"ent", p>> : p \in EntVariants } \cup { <<"wrk", p>> : p \in RegVariants }
           \cup { <<"bcn", p>> : p \in RegVariants } \cup { <<"str", p>> : p \in StrVariants }

\* probes: one action per dependent rule, run in the blocks after the update took (or did not take) effect
Probes(s) == <<
   Tx(<<[t |-> "Decide", signer |-> "A2", id |-> 1, d |-> "accept"]>>),
   Tx(<<[t |-> "Decide", signer |-> "A4", id |-> 1, d |-> "reject"]>>),
   TxFee(<<WReg("A2")>>, [nund |-> 6]),
   TxFee(<<BReg("A2")>>, [nund |-> 6]),
   TxFee(<<[t |-> "WBuy", owner |-> "A1", id |-> 1, n |-> 2]>>, [nund |-> 6]),
   TxFee(<<[t |-> "BBuy", owner |-> "A1", id |-> 1, n |-> 1]>>, [nund |-> 3]),
   Tx(<<[t |-> "SClaim", sender |-> "A1", receiver |-> "A2"]>>) >>

ScriptTail == <<EndEv, ComEv, [a |-> "BeginBlock", dt |-> 2000], EndEv, ComEv, [a |-> "BeginBlock", dt |-> 1000]>> \o Probes(st) \o
        <<EndEv, ComEv, [a |-> "BeginBlock", dt |-> 3000], EndEv, ComEv, [a |-> "BeginBlock", dt |-> 1000], EndEv, ComEv>>
\* a parameter change that takes effect between an order's acceptance (BeginBlock of block n) and its minting
\* (BeginBlock of block n+1): submitted first, the deciding vote one block later
BetweenTail == <<EndEv, ComEv, [a |-> "BeginBlock", dt |-> 1000],
                 Tx(<<[t |-> "Decide", signer |-> "A1", id |-> 1, d |-> "accept"]>>), EndEv, ComEv,
                 [a |-> "BeginBlock", dt |-> 1000], EndEv, ComEv, [a |-> "BeginBlock", dt |-> 1000], EndEv, ComEv,
                 [a |-> "BeginBlock", dt |-> 1000], EndEv, ComEv>>
BetweenVariants == { [EntNom EXCEPT !.min = 1, !.denom = d] : d \in {"nund", "other"} }
                   \cup { [signers |-> <<"A4">>, min |-> 1, limit |-> 1, denom |-> "nund"], [signers |-> <<"A1", "A2", "A4">>, min |-> 3, limit |-> 9, denom |-> "nund"] }
\* transactions admitted to the mempool with the exact fee BEFORE a fee change and still pending when it takes effect:
\* mempool admission is re-run on them after every block (recheck mode)
Pending == << [a |-> "CheckTx", keep |-> TRUE, msgs |-> <<WReg("A2")>>, fee |-> [nund |-> 4]],
             [a |-> "CheckTx", keep |-> TRUE, msgs |-> <<BReg("A3")>>, fee |-> [nund |-> 4]],
             [a |-> "CheckTx", keep |-> TRUE, msgs |-> <<[t |-> "WRec", owner |-> "A1", id |-> 1, h |-> 5, bh |-> "b", ph |-> "", h1 |-> "", h2 |-> "", h3 |-> ""], [t |-> "WBuy", owner |-> "A1", id |-> 1, n |-> 2]>>, fee |-> [nund |-> 3]] >>
RecheckTail == Pending \o <<EndEv, ComEv, [a |-> "Recheck"], [a |-> "BeginBlock", dt |-> 2000], EndEv, ComEv, [a |-> "Recheck"],
                            [a |-> "BeginBlock", dt |-> 1000], EndEv, ComEv, [a |-> "Recheck"]>>
FeeUpdates == { <<k, [RegNom EXCEPT !.feeReg = a, !.feeRec = b, !.feePur = c, !.def = 2, !.max = 4]>> :
                  k \in {"wrk", "bcn"}, <<a, b, c>> \in { <<4, 1, 1>>, <<5, 1, 1>>, <<3, 1, 1>>, <<4, 2, 1>>, <<4, 1, 2>> } }
Choices == { [ev |-> GovTxFor(st, u[1], u[2]), tail |-> ScriptTail] : u \in Updates }
           \cup { [ev |-> GovTxFor(st, u[1], u[2]), tail |-> RecheckTail] : u \in FeeUpdates }
           \cup { [ev |-> GovTxFor(st, "ent", p), tail |-> BetweenTail] : p \in BetweenVariants }
Init == /\ st = StateOf(Gen) /\ hist = <<[a |-> "InitChain", g |-> Gen]>> /\ todo = Prefix /\ phase = "prefix" /\ nTx = 0
Run == /\ todo # <<>> /\ ~st.halted
       /\ st' = Step(st, Head(todo)).st /\ hist' = Append(hist, Head(todo)) /\ todo' = Tail(todo)
       /\ UNCHANGED <<phase, nTx>>
Choose == /\ todo = <<>> /\ phase = "prefix"
          /\ \E c \in Choices :
               st' = Step(st, c.ev).st /\ hist' = Append(hist, c.ev) /\ todo' = c.tail /\ phase' = "tail" /\ nTx' = 1
Done == (todo = <<>> \/ st.halted) /\ phase = "tail" /\ phase' = "done" /\ UNCHANGED <<st, hist, nTx, todo>>
Next == Run \/ Choose \/ Done
Spec == Init /\ [][Next]_vars

Inv == StoredParamsValid(st) /\ C03State(st) /\ C08State(st) /\ C10State(st) /\ (NotHalted(st) \/ EntDenomChanged(st))
Emit == phase = "done" => PrintT(<<"TRACE", ToJson(hist)>>)
=============================================================================
