------------------------------- MODULE MC_Page -------------------------------
(* C20 on the design: for every store of up to MaxN entries, every filter    *)
(* (subset of matching keys), every page limit 1..MaxN+1 and both            *)
(* continuation modes, the client's paging loop over the SDK paginators      *)
(* returns every matching entry exactly once, in key order, nothing else,    *)
(* and no page exceeds the limit.                                            *)
EXTENDS Paginate

CONSTANT MaxN
VARIABLES n, M, limit, mode
vars == <<n, M, limit, mode>>

StoreKeys(k) == [i \in 1..k |-> i * 10]          \* ids with gaps; key order = numeric order
Init == /\ n \in 0..MaxN /\ M \in SUBSET Range(StoreKeys(n)) /\ limit \in 1..(MaxN + 1) /\ mode \in {"key", "off"}
Next == UNCHANGED vars
Spec == Init /\ [][Next]_vars

Inv == /\ LoopComplete(StoreKeys(n), M, mode, limit)
       /\ PagesWithinLimit(StoreKeys(n), M, mode, limit)
       /\ \A i \in DOMAIN Loop(StoreKeys(n), M, mode, limit) :      \* only the last page may be short
            i < Len(Loop(StoreKeys(n), M, mode, limit)) => Len(Loop(StoreKeys(n), M, mode, limit)[i].items) = limit
=============================================================================
