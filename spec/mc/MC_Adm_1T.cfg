SPECIFICATION Spec
CONSTANTS
  MaxLen = 1
  EqualFees = TRUE
INVARIANT Inv
INVARIANT Emit
CHECK_DEADLOCK FALSE
