\* fee allowances: registry transactions of holders of locked eFUND paid by a fee granter
SPECIFICATION Spec
CONSTANTS
  WithFeeGrant = TRUE
  MaxHeight = 4
  MaxTx = 4
  MaxFail = 1
  Amounts <- AmountsQuick
VIEW View
INVARIANT Inv
PROPERTY StepProps
PROPERTY GoalEmit
CHECK_DEADLOCK FALSE
