SPECIFICATION Spec
CONSTANTS
  MaxLen = 2
  EqualFees = TRUE
INVARIANT Inv
INVARIANT Emit
CHECK_DEADLOCK FALSE
