SPECIFICATION Spec
CONSTANTS
  MaxHeight = 2
  MaxTx = 2
  MaxCrash = 1
VIEW View
INVARIANT Inv
PROPERTY CrashKeepsDisk
CHECK_DEADLOCK FALSE
