------------------------------- MODULE MC_Adm -------------------------------
(* C06: mempool admission (CheckTx) of WRKChain / BEACON operations.         *)
(* One-step exhaustive enumeration: every input is one transaction offered   *)
(* to CheckTx on a prepared committed state.  Inputs = message sequences     *)
(* over register / record / purchase-n of both modules, unrelated messages,  *)
(* top-level or nested in one or two Exec wrappers; fee in the module        *)
(* denomination absent / expected-1 / expected / expected+1 / top-level-only *)
(* sum; an extra fee denomination or not; payers with every relation of      *)
(* liquid + locked funds to the fee.  TLC checks meta-properties of the      *)
(* ideal rule (order independence, exactness) and emits every input; the     *)
(* harness offers each one to the real CheckTx.                              *)
EXTENDS Genesis

CONSTANTS MaxLen,        \* messages per transaction
          EqualFees      \* TRUE: both modules charge the same fees
VARIABLES st, phase, hist, todo
vars == <<st, phase, hist, todo>>

Accts == <<"A1", "A2", "A3", "A4">>
AcctSet == Range(Accts)

WrkP == [feeReg |-> 24, feeRec |-> 2, feePur |-> 3, denom |-> "nund", def |-> 2, max |-> 4, startId |-> 1]
BcnP == IF EqualFees THEN WrkP ELSE [feeReg |-> 12, feeRec |-> 1, feePur |-> 5, denom |-> "nund", def |-> 2, max |-> 4, startId |-> 1]
Gen == [accts |-> Accts,
        bal |-> [a \in AcctSet |-> CASE a = "A1" -> [nund |-> 900, other |-> 9]
                                     [] a = "A2" -> [nund |-> 24, other |-> 9]      \* exactly the WRKChain registration fee
                                     [] a = "A3" -> [nund |-> 10, other |-> 9]      \* plus 14 locked = exactly 24
                                     [] OTHER    -> [nund |-> 23, other |-> 9]],    \* short by one
        ent |-> [signers |-> <<"A1">>, min |-> 1, limit |-> 50, denom |-> "nund", wl |-> <<"A3">>, startId |-> 1],
        wrk |-> WrkP, bcn |-> BcnP, str |-> [feeNum |-> 1, feeDen |-> 10]]

WReg(o) == [t |-> "WReg", owner |-> o, moniker |-> "m", name |-> "n", genesis |-> "g", type |-> "t"]
BReg(o) == [t |-> "BReg", owner |-> o, moniker |-> "m", name |-> "n"]
WRec(o) == [t |-> "WRec", owner |-> o, id |-> 1, h |-> 9, bh |-> "b", ph |-> "", h1 |-> "", h2 |-> "", h3 |-> ""]
BRec(o) == [t |-> "BRec", owner |-> o, id |-> 1, hash |-> "x", subt |-> 7]
WBuy(o, n) == [t |-> "WBuy", owner |-> o, id |-> 1, n |-> n]
BBuy(o, n) == [t |-> "BBuy", owner |-> o, id |-> 1, n |-> n]
Exec1(o, m) == [t |-> "Exec", grantee |-> o, msgs |-> <<m>>]

Prefix == << [a |-> "BeginBlock", dt |-> 1000],
             TxFee(<<WReg("A1")>>, [nund |-> 24]), TxFee(<<BReg("A1")>>, [nund |-> BcnP.feeReg]),
             Tx(<<[t |-> "Raise", pur |-> "A3", amt |-> 14, denom |-> "nund"]>>),
             Tx(<<[t |-> "Decide", signer |-> "A1", id |-> 1, d |-> "accept"]>>),
             EndEv, ComEv, [a |-> "BeginBlock", dt |-> 1000], EndEv, ComEv, [a |-> "BeginBlock", dt |-> 1000], EndEv, ComEv >>

Base(o) == { WReg(o), WRec(o), WBuy(o, 1), WBuy(o, 2), WBuy(o, 3), BReg(o), BRec(o), BBuy(o, 2), BBuy(o, 3),
             [t |-> "Send", from |-> o, to |-> "A1", amt |-> 1, denom |-> "nund"] }
Wrapped(o) == { Exec1(o, m) : m \in {WReg(o), WRec(o), WBuy(o, 2), BReg(o), BRec(o)} }
                \cup { Exec1(o, Exec1(o, m)) : m \in {WReg(o), BRec(o)} }
                \* ... or carried by a group proposal that a member (or anyone: admission does not look inside) submits
                \cup { [t |-> "GExec", member |-> o, msgs |-> <<m>>] : m \in {WRec("grp"), BReg("grp")} }
Msgs(o) == Base(o) \cup Wrapped(o)
Seqs(o) == { <<m>> : m \in Msgs(o) }
           \cup (IF MaxLen >= 2 THEN { <<m1, m2>> : m1 \in Msgs(o), m2 \in Msgs(o) } ELSE {})
           \cup (IF MaxLen >= 3 THEN { <<m1, m2, m3>> : m1 \in Base(o), m2 \in Msgs(o), m3 \in Base(o) } ELSE {})

TopSum(s, msgs) == SumFees(s.wrk.p, TopOps(msgs, "wrk")) + SumFees(s.bcn.p, TopOps(msgs, "bcn"))
\* the fee of every SUBSET of the registry operations the transaction executes (an operation that is not charged,
\* charged twice or replaced by a later one shows up at one of these sums)
OpFees(s, msgs) == LET ops == SelectSeq(Flatten(msgs), LAMBDA m : IsRegMsg("wrk", m) \/ IsRegMsg("bcn", m))
                   IN [i \in DOMAIN ops |-> MsgFee(IF IsRegMsg("wrk", ops[i]) THEN s.wrk.p ELSE s.bcn.p, ops[i])]
SubsetSums(fs) == { SeqSum([i \in DOMAIN fs |-> IF i \in S THEN fs[i] ELSE 0]) : S \in SUBSET DOMAIN fs }
FeeChoices(s, msgs) ==
  LET e == ExpectedFee(s, msgs, "nund") IN
  { f \in {0, e - 1, e, e + 1, TopSum(s, msgs), SumFees(s.wrk.p, TopOps(msgs, "wrk")), SumFees(s.bcn.p, TopOps(msgs, "bcn"))}
           \cup SubsetSums(OpFees(s, msgs)) : f >= 0 }
Inputs(s) ==
  UNION { UNION { { [a |-> "CheckTx", msgs |-> q,
                    fee |-> (IF f > 0 THEN [nund |-> f] ELSE <<>>) @@ (IF x THEN [other |-> 1] ELSE <<>>)]
                    : f \in FeeChoices(s, q), x \in BOOLEAN }
                : q \in Seqs(o) } : o \in AcctSet }

Init == /\ st = StateOf(Gen) /\ hist = <<[a |-> "InitChain", g |-> Gen]>> /\ todo = Prefix /\ phase = "prefix"
Run == /\ todo # <<>>
       /\ st' = Step(st, Head(todo)).st /\ hist' = Append(hist, Head(todo)) /\ todo' = Tail(todo) /\ UNCHANGED phase
Choose == /\ todo = <<>> /\ phase = "prefix"
          /\ \E ev \in Inputs(st) : hist' = Append(hist, ev) /\ phase' = "done" /\ UNCHANGED <<st, todo>>
Next == Run \/ Choose
Spec == Init /\ [][Next]_vars

\* meta-properties of the ideal admission rule, checked on every enumerated input
Rev(q) == [i \in DOMAIN q |-> q[Len(q) + 1 - i]]
LastIn == hist[Len(hist)]
RuleProps == phase = "done" =>
   /\ AdmitIdeal(st, LastIn) = AdmitIdeal(st, [LastIn EXCEPT !.msgs = Rev(@)])                  \* order independence
   /\ (AdmitIdeal(st, LastIn) /\ HasRegistryOps(LastIn.msgs) =>
          FeeOf(Get(LastIn, "fee", <<>>), "nund") = ExpectedFee(st, LastIn.msgs, "nund"))        \* exactness
   /\ (~HasRegistryOps(LastIn.msgs) => AdmitIdeal(st, LastIn))                                 \* the rule only concerns registry ops
Inv == RuleProps /\ C04State(st) /\ NotHalted(st)
Emit == phase = "done" => PrintT(<<"TRACE", ToJson(hist)>>)
=============================================================================
