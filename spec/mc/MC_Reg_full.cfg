SPECIFICATION Spec
CONSTANTS
  Pre <- NoPre
  FailingGov = FALSE
  MaxHeight = 3
  MaxTx = 6
  MaxFail = 1
  MaxReg = 2
  MaxRec = 5
  GenCap <- SmallCap
  Presets <- PresetsFull
VIEW View
INVARIANT Inv
PROPERTY StepProps
PROPERTY GoalEmit
CHECK_DEADLOCK FALSE
