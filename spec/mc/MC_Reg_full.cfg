SPECIFICATION Spec
CONSTANTS
  Pre <- NoPre
  FailingGov = FALSE
  MaxHeight = 3
  MaxTx = 4
  MaxFail = 1
  MaxReg = 2
  MaxRec = 4
  GenCap <- SmallCap
  Presets <- PresetsQuick
VIEW View
INVARIANT Inv
PROPERTY StepProps
PROPERTY GoalEmit
CHECK_DEADLOCK FALSE
