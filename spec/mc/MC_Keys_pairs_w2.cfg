SPECIFICATION PairSpec
CONSTANTS
  W = 2
  Bytes = {0, 1, 2, 255}
  MaxAddrLen = 3
  PairModules = {"ent", "wrk", "bcn"}
  MaxLen = 0
INVARIANT PairInv
CHECK_DEADLOCK FALSE
