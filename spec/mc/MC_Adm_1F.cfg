SPECIFICATION Spec
CONSTANTS
  MaxLen = 1
  EqualFees = FALSE
INVARIANT Inv
INVARIANT Emit
CHECK_DEADLOCK FALSE
