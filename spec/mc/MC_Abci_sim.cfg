SPECIFICATION SpecSim
CONSTANTS
  MaxHeight = 6
  MaxTx = 10
  MaxCrash = 4
INVARIANT Inv
INVARIANT Emit
CHECK_DEADLOCK FALSE
