SPECIFICATION PairSpec
CONSTANTS
  W = 3
  Bytes = {0, 1, 255}
  MaxAddrLen = 2
  PairModules = {"ent", "wrk", "bcn"}
  MaxLen = 0
INVARIANT PairInv
CHECK_DEADLOCK FALSE
