SPECIFICATION Spec
CONSTANTS
  MaxHeight = 5
  MaxTx = 6
  MaxPo = 2
  MaxFail = 1
  Presets <- PresetsFull
VIEW View
INVARIANT Inv
PROPERTY StepProps
PROPERTY GoalEmit
CHECK_DEADLOCK FALSE
