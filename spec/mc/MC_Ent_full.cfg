SPECIFICATION Spec
CONSTANTS
  FailingGov = FALSE
  MaxHeight = 5
  MaxTx = 5
  MaxPo = 1
  MaxFail = 1
  Presets <- PresetsQuick
VIEW View
INVARIANT Inv
PROPERTY StepProps
PROPERTY GoalEmit
CHECK_DEADLOCK FALSE
