\* C19 long vectors: tlc -simulate num=K -depth 33 -seed S ; one behaviour = one input with 5..30
\* significant digits and a uniformly chosen fractional length 0..9, digits chosen at random
SPECIFICATION SpecSim
CONSTANTS
  Digits = {0, 1, 2, 3, 4, 5, 6, 7, 8, 9}
  MaxInt = 30
  MaxFrac = 9
  MinSig = 5
  MaxSig = 30
INVARIANT TypeOK
INVARIANT EmitComplete
CHECK_DEADLOCK FALSE
