SPECIFICATION Spec
CONSTANTS
  FailingGov = FALSE
  MaxHeight = 2
  MaxTx = 3
  MaxFail = 1
  MaxStreams = 1
  Fees <- FeesQuick
  DTs <- DTsQuick
VIEW View
INVARIANT Inv
PROPERTY StepProps
PROPERTY GoalEmit
CHECK_DEADLOCK FALSE
