-------------------------- MODULE LedgerInductive --------------------------
(* C02 / C04, unbounded: the locked-eFUND books balance after every          *)
(* operation, for ALL integer amounts.  Three accounts (the books are sums   *)
(* over accounts, so a fixed small set suffices to exercise "another account *)
(* holds locked eFUND"); every amount - order amount, fee, liquid balance -  *)
(* is symbolic.  The operations are those of Enterprise.tla at the level of  *)
(* numbers, built from the same EntArith!UnlockTake:                         *)
(*   Complete(a, n)   an accepted order of a completes: mint n, lock it      *)
(*   PayFee(a, f)     a registry transaction of a pays fee f: unlock, deduct *)
(* Apalache checks, as invariants of the initial states (--length=0):        *)
(*   Books /\ <operation> => Books'   (one obligation per operation)         *)
(* where Books is the conjunction the properties state: escrow balance =     *)
(* running total = sum of the per-account records, total spent = sum of the  *)
(* spent records, supply = everything held, nothing negative.                *)
EXTENDS Integers, EntArith

VARIABLES
  \* @type: Int;
  la,  \* locked eFUND of account a, b, c
  \* @type: Int;
  lb,
  \* @type: Int;
  lc,
  \* @type: Int;
  sa,  \* spent eFUND of a, b, c
  \* @type: Int;
  sb,
  \* @type: Int;
  sc,
  \* @type: Int;
  qa,  \* liquid (spendable) balance of a (the payer / purchaser of the step)
  \* @type: Int;
  rest, \* all other liquid balances and the fee collector together
  \* @type: Int;
  escrow,
  \* @type: Int;
  tot,
  \* @type: Int;
  totSpent,
  \* @type: Int;
  supply,
  \* @type: Int;
  n,   \* amount of the completing order
  \* @type: Int;
  f    \* fee of the registry transaction

Init == /\ la \in Nat /\ lb \in Nat /\ lc \in Nat /\ sa \in Nat /\ sb \in Nat /\ sc \in Nat
        /\ qa \in Nat /\ rest \in Nat /\ escrow \in Int /\ tot \in Int /\ totSpent \in Int /\ supply \in Int
        /\ n \in Nat /\ n >= 1 /\ f \in Nat /\ f >= 1
Next == UNCHANGED <<la, lb, lc, sa, sb, sc, qa, rest, escrow, tot, totSpent, supply, n, f>>

\* @type: (Int, Int, Int, Int, Int, Int, Int, Int, Int, Int, Int, Int) => Bool;
BooksOf(xla, xlb, xlc, xsa, xsb, xsc, xqa, xrest, xescrow, xtot, xtotSpent, xsupply) ==
  /\ xescrow = xtot /\ xtot = xla + xlb + xlc /\ xtotSpent = xsa + xsb + xsc
  /\ xsupply = xqa + xrest + xescrow
  /\ xla >= 0 /\ xlb >= 0 /\ xlc >= 0 /\ xqa >= 0 /\ xrest >= 0
Books == BooksOf(la, lb, lc, sa, sb, sc, qa, rest, escrow, tot, totSpent, supply)

\* Complete: mint n (supply), hold it in escrow, record it for a
BooksAfterComplete == Books => BooksOf(la + n, lb, lc, sa, sb, sc, qa, rest, escrow + n, tot + n, totSpent, supply + n)
\* exactly n more locked for a, exactly n more supply, nothing else moves (C02 / C03 credit exactly once)
\* PayFee: unlock take = UnlockTake(la, qa, f) into a's liquid balance, then deduct the fee from it (if it can pay)
Take == UnlockTake(la, qa, f)
CanPay == qa + Take >= f
BooksAfterPayFee ==
  (Books /\ CanPay) => BooksOf(la - Take, lb, lc, sa + Take, sb, sc, qa + Take - f, rest + f, escrow - Take, Floor0(tot - Take), totSpent + Take, supply)
\* the floor of the running total never applies while the books balance
FloorNeverApplies == Books => tot - Take >= 0
\* C05: the payer's locked eFUND drops by exactly min(fee, locked) whenever the fee can be paid at all
DropsByMinFeeLocked == (Books /\ qa + la >= f) => Take = (IF f <= la THEN f ELSE la)
\* a payer who cannot cover the fee from liquid + locked loses nothing
NothingTakenIfUncovered == (Books /\ qa + la < f) => Take = 0
\* sanity (must be VIOLATED): with a take that ignores the payer's record the books break
Vacuity_WrongTake == (Books /\ CanPay) => BooksOf(la - f, lb, lc, sa + f, sb, sc, qa, rest + f, escrow - f, Floor0(tot - f), totSpent + f, supply)
=============================================================================
