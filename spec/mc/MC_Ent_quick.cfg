SPECIFICATION Spec
CONSTANTS
  MaxHeight = 4
  MaxTx = 4
  MaxPo = 1
  MaxFail = 1
  Presets <- PresetsQuick
VIEW View
INVARIANT Inv
PROPERTY StepProps
PROPERTY GoalEmit
CHECK_DEADLOCK FALSE
