SPECIFICATION Spec
CONSTANTS
  MaxHeight = 3
  MaxTx = 4
  MaxFail = 1
  MaxStreams = 1
  Fees <- FeesQuick
  DTs <- DTsQuick
VIEW View
INVARIANT Inv
PROPERTY StepProps
CHECK_DEADLOCK FALSE
