SPECIFICATION Spec
CONSTANTS
  Pre <- NoPre
  FailingGov = FALSE
  MaxHeight = 3
  MaxTx = 3
  MaxFail = 1
  MaxStreams = 1
  Fees <- FeesQuick
  DTs <- DTsQuick
VIEW View
INVARIANT Inv
PROPERTY StepProps
PROPERTY GoalEmit
CHECK_DEADLOCK FALSE
