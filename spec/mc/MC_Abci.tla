------------------------------- MODULE MC_Abci -------------------------------
(* C01: the application as a durable state machine.  `st` is the volatile    *)
(* (in-memory / deliver) state, `disk` what the last Commit made durable.    *)
(* Crash is enabled in EVERY phase of the ABCI cycle (after BeginBlock,      *)
(* after the k-th DeliverTx, after EndBlock, after Commit); Restart resumes  *)
(* from `disk`, and the interrupted block is re-proposed unchanged.          *)
(* Invariants: a restart resumes exactly at the last committed state         *)
(* (RestartResumesCommitted); replaying the interrupted block reaches the    *)
(* state a never-stopped replica reaches (NoVolatileLeak, against the        *)
(* reference log `ref`).  The transaction alphabet spans every custom module *)
(* incl. failing transactions.  Behaviours with their crash points are       *)
(* emitted for replay on real replicas (MemDB / goleveldb / other process).  *)
EXTENDS Genesis

CONSTANTS MaxHeight, MaxTx, MaxCrash
VARIABLES st,      \* volatile state
          disk,    \* durable state (as of the last Commit)
          phase,   \* "idle" | "block" | "ended" | "down"
          blk,     \* events of the block in progress (to be re-proposed after a crash)
          todo,    \* events to re-execute after a restart
          ref,     \* reference: height -> state a never-stopped replica committed
          hist, nTx, nCrash
vars == <<st, disk, phase, blk, todo, ref, hist, nTx, nCrash>>

Accts == <<"A1", "A2", "A3">>
AcctSet == Range(Accts)
Gen == [accts |-> Accts,
        bal |-> [a \in AcctSet |-> [nund |-> 500, other |-> 100]],
        ent |-> [signers |-> <<"A1">>, min |-> 1, limit |-> 5, denom |-> "nund", wl |-> <<"A3">>, startId |-> 1],
        wrk |-> [feeReg |-> 4, feeRec |-> 1, feePur |-> 1, denom |-> "nund", def |-> 1, max |-> 3, startId |-> 1],
        bcn |-> [feeReg |-> 4, feeRec |-> 1, feePur |-> 1, denom |-> "nund", def |-> 2, max |-> 3, startId |-> 1],
        str |-> [feeNum |-> 1, feeDen |-> 10],
        db |-> "goleveldb"]

LastW == IF ChExists(st, "wrk", 1) THEN ChOf(st, "wrk", 1).last ELSE 0
TxAlphabet ==
  { Tx(<<[t |-> "Raise", pur |-> "A3", amt |-> 5, denom |-> "nund"]>>),
    Tx(<<[t |-> "Decide", signer |-> "A1", id |-> 1, d |-> "accept"]>>),
    Tx(<<[t |-> "Decide", signer |-> "A2", id |-> 1, d |-> "accept"]>>),                      \* fails: not a signer
    TxFee(<<[t |-> "WReg", owner |-> "A1", moniker |-> "m", name |-> "n", genesis |-> "g", type |-> "t"]>>, [nund |-> 4]),
    TxFee(<<[t |-> "WRec", owner |-> "A1", id |-> 1, h |-> LastW + 1, bh |-> "b", ph |-> "", h1 |-> "", h2 |-> "", h3 |-> ""]>>, [nund |-> 1]),
    TxFee(<<[t |-> "BReg", owner |-> "A3", moniker |-> "m", name |-> "n"]>>, [nund |-> 4]),
    TxFee(<<[t |-> "BRec", owner |-> "A3", id |-> 1, hash |-> "x", subt |-> 7]>>, [nund |-> 1]),
    Tx(<<[t |-> "SCreate", sender |-> "A1", receiver |-> "A2", dep |-> 120, denom |-> "nund", rate |-> 2]>>),
    Tx(<<[t |-> "SClaim", sender |-> "A1", receiver |-> "A2"]>>),
    Tx(<<[t |-> "SCancel", sender |-> "A1", receiver |-> "A2"]>>),
    Tx(<<[t |-> "Send", from |-> "A2", to |-> "ent", amt |-> 1, denom |-> "nund"]>>),          \* fails: blocked address
    GovTxFor(st, "str", [feeNum |-> 1, feeDen |-> 2]) }

Init == /\ st = StateOf(Gen) /\ disk = StateOf(Gen) /\ phase = "idle" /\ blk = <<>> /\ todo = <<>>
        /\ ref = <<>> /\ hist = <<[a |-> "InitChain", g |-> Gen]>> /\ nTx = 0 /\ nCrash = 0

Exec(ev) == st' = Step(st, ev).st /\ hist' = Append(hist, ev)

Begin == /\ phase = "idle" /\ todo = <<>> /\ st.height < 2 + MaxHeight
         /\ \E dt \in {1000, 30000} : LET ev == [a |-> "BeginBlock", dt |-> dt] IN
               Exec(ev) /\ blk' = <<ev>> /\ phase' = "block" /\ UNCHANGED <<disk, todo, ref, nTx, nCrash>>
Deliver == /\ phase = "block" /\ todo = <<>> /\ nTx < MaxTx
           /\ \E ev \in TxAlphabet : Exec(ev) /\ blk' = Append(blk, ev) /\ nTx' = nTx + 1
           /\ UNCHANGED <<disk, phase, todo, ref, nCrash>>
End == /\ phase = "block" /\ todo = <<>>
       /\ Exec(EndEv) /\ blk' = Append(blk, EndEv) /\ phase' = "ended" /\ UNCHANGED <<disk, todo, ref, nTx, nCrash>>
\* Commit makes the volatile state durable; the first replica to commit a height defines the reference
CommitStep == /\ phase = "ended" /\ todo = <<>>
              /\ Exec(ComEv) /\ disk' = st /\ blk' = <<>> /\ phase' = "idle"
              /\ ref' = IF Len(ref) < st.height - 2 THEN Append(ref, st) ELSE ref
              /\ UNCHANGED <<todo, nTx, nCrash>>
\* a crash loses everything volatile, at any point of the cycle
Crash == /\ phase \in {"idle", "block", "ended"} /\ todo = <<>> /\ nCrash < MaxCrash /\ Len(hist) > 1
         /\ hist' = Append(hist, [a |-> "Crash"]) /\ phase' = "down" /\ nCrash' = nCrash + 1
         /\ UNCHANGED <<st, disk, blk, todo, ref, nTx>>
\* restart: memory := durable state; the interrupted block is re-proposed unchanged
Restart == /\ phase = "down"
           /\ st' = disk /\ hist' = Append(hist, [a |-> "Restart"]) /\ todo' = blk /\ blk' = <<>> /\ phase' = "idle"
           /\ UNCHANGED <<disk, ref, nTx, nCrash>>
\* replay of the interrupted block, event by event
Replay == /\ todo # <<>> /\ phase # "down"
          /\ LET ev == Head(todo) IN
             /\ Exec(ev) /\ todo' = Tail(todo) /\ blk' = Append(blk, ev)
             /\ phase' = (IF ev.a = "EndBlock" THEN "ended" ELSE "block")
          /\ UNCHANGED <<disk, ref, nTx, nCrash>>

Next == Begin \/ Deliver \/ End \/ CommitStep \/ Crash \/ Restart \/ Replay
Finish == phase = "idle" /\ todo = <<>> /\ (st.height >= 2 + MaxHeight \/ nTx >= MaxTx) /\ phase' = "done" /\ UNCHANGED <<st, disk, blk, todo, ref, hist, nTx, nCrash>>
Spec == Init /\ [][Next]_vars
SpecSim == Init /\ [][Next \/ Finish]_vars
View == <<st, disk, phase, blk, todo, nTx, nCrash>>

\* after a restart (before anything is re-executed) memory holds exactly the last committed state
RestartResumesCommitted == (hist[Len(hist)].a = "Restart") => st = disk
\* what is durable at height h is what the never-stopped reference committed at h
DurableAgreesWithReference == \A i \in DOMAIN ref : (disk.height = i + 2 => disk = ref[i])
\* a crash never changes what is durable
Inv == RestartResumesCommitted /\ DurableAgreesWithReference /\ NotHalted(st) /\ C04State(disk) /\ C10State(disk)
CrashKeepsDisk == [][ (phase' = "down" \/ phase = "down") => disk' = disk ]_vars
Emit == phase = "done" => PrintT(<<"TRACE", ToJson(hist)>>)
=============================================================================
