\* exploration that starts from a prepared state: a WRKChain and a BEACON registered, both at their limits
SPECIFICATION Spec
CONSTANTS
  Pre <- SweepPrefix
  FailingGov = FALSE
  MaxHeight = 5
  MaxTx = 3
  MaxFail = 1
  MaxReg = 1
  MaxRec = 6
  GenCap <- SmallCap
  Presets <- PresetsQuick
VIEW View
INVARIANT Inv
PROPERTY StepProps
PROPERTY GoalEmit
CHECK_DEADLOCK FALSE
