\* exploration that starts from a prepared state: one stream drained, one live
SPECIFICATION Spec
CONSTANTS
  Pre <- PreDrained
  FailingGov = FALSE
  MaxHeight = 5
  MaxTx = 3
  MaxFail = 1
  MaxStreams = 2
  Fees <- FeesQuick
  DTs <- DTsDeep
VIEW View
INVARIANT Inv
PROPERTY StepProps
PROPERTY GoalEmit
CHECK_DEADLOCK FALSE
