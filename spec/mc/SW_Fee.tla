------------------------------- MODULE SW_Fee -------------------------------
(* Alphabet sweep over MC_Fee: a scripted prefix prepares a state, then EVERY *)
(* transaction class of the alphabet is executed once (no rationing), then a *)
(* scripted tail runs.  One event per TLC step (a script counter), explored  *)
(* breadth-first; every complete behaviour is replayed on the real app.      *)
EXTENDS MC_Fee

VARIABLE todo      \* events still to execute in the current script segment
swvars == <<st, phase, hist, nTx, nFail, todo>>

SweepTail == <<TxFee(<<BRec("A3", 1)>>, [nund |-> 1]), EndEv, ComEv, [a |-> "BeginBlock", dt |-> 1000], EndEv, ComEv>>

\* degenerate inputs of the enterprise messages: amount zero, order id zero
Degenerate ==
  { Tx(<<[t |-> "Raise", pur |-> "A3", amt |-> 0, denom |-> "nund"]>>), Tx(<<[t |-> "Decide", signer |-> "A1", id |-> 0, d |-> "accept"]>>),
    Tx(<<[t |-> "Raise", pur |-> "A3", amt |-> 3, denom |-> "other"]>>) }
SweepAlphabet == TxAlphabet \cup Degenerate

SwInit == \E n \in {3, 30} :
          /\ st = StateOf(Gen) /\ hist = <<[a |-> "InitChain", g |-> Gen]>>
          /\ todo = SweepPrefix(n) /\ phase = "prefix" /\ nTx = 0 /\ nFail = 0
SwRun == /\ todo # <<>>
         /\ st' = Step(st, Head(todo)).st /\ hist' = Append(hist, Head(todo)) /\ todo' = Tail(todo)
         /\ UNCHANGED <<phase, nTx, nFail>>
SwChoose == /\ todo = <<>> /\ phase = "prefix"
            /\ \E ev \in SweepAlphabet :
                 /\ st' = Step(st, ev).st /\ hist' = Append(hist, ev)
                 /\ todo' = SweepTail /\ phase' = "tail" /\ nTx' = 1 /\ UNCHANGED nFail
SwDone == todo = <<>> /\ phase = "tail" /\ phase' = "done" /\ UNCHANGED <<st, hist, nTx, nFail, todo>>
SwSpec == SwInit /\ [][SwRun \/ SwChoose \/ SwDone]_swvars
SwStepProps == [][ hist' # hist => LET ev == hist'[Len(hist')] IN C03Step(st, st', ev) /\ C04Step(st, st', ev) /\ C02Step(st, st', ev) /\ C05Step(st, st', ev) ]_swvars
=============================================================================
