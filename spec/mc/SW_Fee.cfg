SPECIFICATION SwSpec
CONSTANTS
  WithFeeGrant = FALSE
  FailingGov = FALSE
  MaxHeight = 8
  MaxTx = 16
  MaxFail = 5
  Amounts <- AmountsFull
INVARIANT Inv
INVARIANT Emit
PROPERTY SwStepProps
CHECK_DEADLOCK FALSE
