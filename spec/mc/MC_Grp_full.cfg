SPECIFICATION Spec
CONSTANTS
  MaxHeight = 3
  MaxTx = 4
  MaxFail = 1
  DTs <- DTsFull
VIEW View
INVARIANT Inv
PROPERTY StepProps
PROPERTY GoalEmit
CHECK_DEADLOCK FALSE
