SPECIFICATION SpecSim
CONSTANTS
  FailingGov = FALSE
  MaxHeight = 8
  MaxTx = 12
  MaxPo = 3
  MaxFail = 3
  Presets <- PresetsFull
INVARIANT Inv
INVARIANT Emit
PROPERTY StepProps
CHECK_DEADLOCK FALSE
