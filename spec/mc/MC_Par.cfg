SPECIFICATION Spec
INVARIANT Inv
INVARIANT Emit
CHECK_DEADLOCK FALSE
