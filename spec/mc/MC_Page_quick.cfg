SPECIFICATION Spec
CONSTANTS
  MaxN = 5
INVARIANT Inv
CHECK_DEADLOCK FALSE
