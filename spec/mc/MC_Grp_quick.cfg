SPECIFICATION Spec
CONSTANTS
  MaxHeight = 3
  MaxTx = 3
  MaxFail = 1
  DTs <- DTsQuick
VIEW View
INVARIANT Inv
PROPERTY StepProps
PROPERTY GoalEmit
CHECK_DEADLOCK FALSE
