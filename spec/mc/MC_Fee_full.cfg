SPECIFICATION Spec
CONSTANTS
  WithFeeGrant = FALSE
  MaxHeight = 4
  MaxTx = 6
  MaxFail = 1
  Amounts <- AmountsQuick
VIEW View
INVARIANT Inv
PROPERTY StepProps
PROPERTY GoalEmit
CHECK_DEADLOCK FALSE
