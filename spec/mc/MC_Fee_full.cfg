SPECIFICATION Spec
CONSTANTS
  WithFeeGrant = FALSE
  MaxHeight = 5
  MaxTx = 6
  MaxFail = 1
  Amounts <- AmountsFull
VIEW View
INVARIANT Inv
PROPERTY StepProps
PROPERTY GoalEmit
CHECK_DEADLOCK FALSE
