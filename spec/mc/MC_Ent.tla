------------------------------- MODULE MC_Ent -------------------------------
(* Bounded model of the purchase-order lifecycle (C03, C04, C02 on the       *)
(* enterprise part): every interleaving of raise / accept / reject /         *)
(* whitelist / parameter change through governance / block-time advance.     *)
(* The same model, run with -simulate, emits behaviours (hist) as JSON that  *)
(* the Go harness replays on the real application.                           *)
EXTENDS Genesis

CONSTANTS MaxHeight,     \* blocks after the genesis block
          MaxTx,         \* transactions per behaviour
          MaxPo,         \* purchase orders per behaviour
          MaxFail,       \* rejected transactions per behaviour (rationed inside Next)
          Presets,       \* enterprise parameter presets reachable by governance: Seq of params
          FailingGov     \* TRUE: the only governance transaction is a proposal that is rolled back when it executes
VARIABLES st, phase, hist, nTx, nFail
vars == <<st, phase, hist, nTx, nFail>>

Accts == <<"A1", "A2", "A3", "A4">>
AcctSet == Range(Accts)

Gen == [accts |-> Accts,
        bal |-> [a \in AcctSet |-> [nund |-> 100, other |-> 100]],
        ent |-> [signers |-> <<"A1", "A2">>, min |-> 1, limit |-> 2, denom |-> "nund", wl |-> <<"A3">>, startId |-> 1],
        wrk |-> [feeReg |-> 24, feeRec |-> 2, feePur |-> 3, denom |-> "nund", def |-> 2, max |-> 4, startId |-> 1],
        bcn |-> [feeReg |-> 20, feeRec |-> 1, feePur |-> 5, denom |-> "nund", def |-> 2, max |-> 4, startId |-> 1],
        str |-> [feeNum |-> 1, feeDen |-> 100]]

Pre == <<>>     \* no scripted prefix in this model
Init == /\ st = FoldL(LAMBDA ev, s : Step(s, ev).st, StateOf(Gen), Pre)
        /\ phase = (IF Pre = <<>> THEN "idle" ELSE "block")
        /\ hist = <<[a |-> "InitChain", g |-> Gen]>> \o Pre /\ nTx = 0 /\ nFail = 0 /\ GoalRegsInit

GovTx(p) == GovTxFor(st, "ent", p)

TxAlphabet ==
     { Tx(<<[t |-> "Raise", pur |-> a, amt |-> n, denom |-> "nund"]>>) : a \in AcctSet, n \in {3, 5} }
  \cup { Tx(<<[t |-> "Decide", signer |-> a, id |-> i, d |-> d]>>) : a \in AcctSet, i \in 1..MaxPo, d \in {"accept", "reject"} }
  \cup { Tx(<<[t |-> "Whitelist", signer |-> a, addr |-> b, act |-> c]>>) : a \in {"A1", "A3"}, b \in {"A3", "A4"}, c \in {"add", "remove"} }
  \* the same decision with the signer's address in its all upper-case spelling (the same account)
  \cup { Tx(<<[t |-> "Decide", signer |-> a, id |-> i, d |-> "accept", enc |-> "upper"]>>) : a \in {"A1", "A2"}, i \in 1..MaxPo }
  \* an order raised inside a transaction that is rolled back (the id stays free)
  \cup { Tx(<<[t |-> "Raise", pur |-> "A3", amt |-> 5, denom |-> "nund"], [t |-> "Raise", pur |-> "A3", amt |-> 3, denom |-> "nund"], [t |-> "Raise", pur |-> "A3", amt |-> 3, denom |-> "foo"]>>) }
  \cup { GovTx(Presets[i]) : i \in (IF FailingGov THEN {} ELSE DOMAIN Presets) }
  \cup (IF FailingGov THEN { GovTxFailingFor(st, "ent", Presets[i]) : i \in DOMAIN Presets } ELSE {})

\* the rolled-back creation scripts (three messages) do not use up the ration of failing transactions
Scripted(ev) == Len(ev.msgs) >= 3
Do(ev, ph) ==
  LET r == Step(st, ev) IN
  /\ st' = r.st /\ hist' = Append(hist, ev) /\ phase' = ph
  /\ IF ev.a = "DeliverTx"
     THEN /\ nTx' = nTx + 1 /\ nFail' = IF r.ok \/ Scripted(ev) THEN nFail ELSE nFail + 1
          /\ (r.ok \/ Scripted(ev) \/ nFail < MaxFail)
     ELSE UNCHANGED <<nTx, nFail>>

Next ==
  \/ /\ phase = "idle" /\ st.height < 2 + MaxHeight /\ ~st.halted
     /\ \E dt \in {0, 1000, 2000} : Do([a |-> "BeginBlock", dt |-> dt], "block")
  \/ /\ phase = "block" /\ nTx < MaxTx /\ ~st.halted
     /\ \E ev \in TxAlphabet :
          /\ (ev.msgs[1].t = "Raise" => PoCount(st) < MaxPo)
          /\ Do(ev, "block")
  \/ /\ phase = "block" /\ ~st.halted
     /\ LET r1 == Step(st, EndEv)  r2 == Step(r1.st, ComEv) IN
        st' = r2.st /\ hist' = hist \o <<EndEv, ComEv>> /\ phase' = "idle" /\ UNCHANGED <<nTx, nFail>>

Finish == phase = "idle" /\ (st.height >= 2 + MaxHeight \/ nTx >= MaxTx) /\ phase' = "done" /\ UNCHANGED <<st, hist, nTx, nFail>>
NextSim == Next \/ Finish
Spec == Init /\ [][Next]_vars
SpecSim == Init /\ [][NextSim]_vars

PresetsQuick == << [signers |-> <<"A1">>, min |-> 1, limit |-> 2, denom |-> "nund"],
                   [signers |-> <<"A1", "A2">>, min |-> 2, limit |-> 1, denom |-> "nund"] >>
PresetsFull == PresetsQuick \o << [signers |-> <<"A1", "A2", "A4">>, min |-> 2, limit |-> 2, denom |-> "nund"],
                                  [signers |-> <<"A2", "A4">>, min |-> 1, limit |-> 4, denom |-> "nund"] >>

View == <<st, phase, nTx, nFail>>

------------------------------------------------------------------------------
Inv == C03State(st) /\ C04State(st) /\ C02StateModel(st) /\ NotHalted(st) /\ C15State(st)
LastEv == hist[Len(hist)]
\* step properties: evaluated on every transition of the model
StepProps == [][ hist' # hist =>
                 LET ev == hist'[Len(hist')] IN
                 C03Step(st, st', ev) /\ C04Step(st, st', ev) /\ C02Step(st, st', ev) /\ C05Step(st, st', ev) ]_vars

\* reachability witnesses (their negations must be violated: vacuity guard)
W_Completed == ~\E i \in DOMAIN st.ent.po : st.ent.po[i].st = "completed"
W_Rejected  == ~\E i \in DOMAIN st.ent.po : st.ent.po[i].st = "rejected"
W_ParamChanged == st.ent.p = StateOf(Gen).ent.p

\* schedule emission (simulation mode): print the behaviour when it cannot be extended
\* coverage goals: print the behaviours that exercise the rare situations of Goals.tla (every explored transition)
GoalEmit == [][ GoalStep(st, hist, st', hist') ]_vars
Emit == phase = "done" => PrintT(<<"TRACE", ToJson(hist)>>)
=============================================================================
