SPECIFICATION SwSpec
CONSTANTS
  Pre <- NoPre
  FailingGov = FALSE
  MaxHeight = 6
  MaxTx = 18
  MaxFail = 4
  MaxReg = 2
  MaxRec = 12
  GenCap <- SmallCap
  Presets <- PresetsFull
INVARIANT Inv
INVARIANT Emit
PROPERTY SwStepProps
CHECK_DEADLOCK FALSE
