SPECIFICATION Spec
CONSTANTS
  FailingGov = TRUE
  MaxHeight = 4
  MaxTx = 3
  MaxFail = 1
  MaxReg = 1
  MaxRec = 2
  GenCap <- SmallCap
  Presets <- PresetsQuick
VIEW View
INVARIANT Inv
PROPERTY StepProps
PROPERTY GoalEmit
CHECK_DEADLOCK FALSE
