SPECIFICATION Spec
CONSTANTS
  MaxN = 8
INVARIANT Inv
CHECK_DEADLOCK FALSE
