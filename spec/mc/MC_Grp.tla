------------------------------- MODULE MC_Grp -------------------------------
(* Bounded model of the group policy account "grp" as a party of every       *)
(* module: an account without a key and with a 32-byte address that acts     *)
(* only through group proposals (GExec: submitted by a member, executed at   *)
(* once, its messages all-or-nothing in a branch of their own while the      *)
(* transaction succeeds either way).  It sends and receives streams, owns a  *)
(* WRKChain and a BEACON, is whitelisted and raises purchase orders; non-    *)
(* members and messages that are not the policy account's are refused.       *)
EXTENDS Genesis

CONSTANTS MaxHeight, MaxTx, MaxFail, DTs
VARIABLES st, phase, hist, nTx, nFail
vars == <<st, phase, hist, nTx, nFail>>

Accts == <<"A1", "A2", "A3">>
AcctSet == Range(Accts)

Gen == [accts |-> Accts,
        bal |-> [a \in AcctSet |-> [nund |-> 500, other |-> 300]],
        ent |-> [signers |-> <<"A1">>, min |-> 1, limit |-> 2, denom |-> "nund", wl |-> <<>>, startId |-> 1],
        wrk |-> [feeReg |-> 4, feeRec |-> 1, feePur |-> 1, denom |-> "nund", def |-> 1, max |-> 3, startId |-> 1],
        bcn |-> [feeReg |-> 4, feeRec |-> 1, feePur |-> 1, denom |-> "nund", def |-> 2, max |-> 3, startId |-> 1],
        str |-> [feeNum |-> 1, feeDen |-> 10]]

G(member, msgs) == Tx(<<[t |-> "GExec", member |-> member, msgs |-> msgs]>>)
SCreate(r, s, dep, rate) == [t |-> "SCreate", sender |-> s, receiver |-> r, dep |-> dep, denom |-> "nund", rate |-> rate]
SOp(T, r, s) == [t |-> T, sender |-> s, receiver |-> r]
WRec(o, id, h) == [t |-> "WRec", owner |-> o, id |-> id, h |-> h, bh |-> "b", ph |-> "", h1 |-> "", h2 |-> "", h3 |-> ""]
BRec(o, id)    == [t |-> "BRec", owner |-> o, id |-> id, hash |-> "x", subt |-> 7]
WReg(o) == [t |-> "WReg", owner |-> o, moniker |-> "m", name |-> "n", genesis |-> "g", type |-> "t"]
BReg(o) == [t |-> "BReg", owner |-> o, moniker |-> "m", name |-> "n"]
LastOf(k, id) == IF ChExists(st, k, id) THEN ChOf(st, k, id).last ELSE 0

\* the scripted prefix: the policy account is funded and whitelisted; an open block follows
Pre == << [a |-> "BeginBlock", dt |-> 1000],
          Tx(<<[t |-> "Send", from |-> "A1", to |-> "grp", amt |-> 200, denom |-> "nund"]>>),
          Tx(<<[t |-> "Whitelist", signer |-> "A1", addr |-> "grp", act |-> "add"]>>),
          EndEv, ComEv, [a |-> "BeginBlock", dt |-> 1000] >>

Init == /\ st = FoldL(LAMBDA ev, s : Step(s, ev).st, StateOf(Gen), Pre)
        /\ phase = "block"
        /\ hist = <<[a |-> "InitChain", g |-> Gen]>> \o Pre /\ nTx = 0 /\ nFail = 0 /\ GoalRegsInit

TxAlphabet ==
     \* streams the policy account sends ...
     { G(m, <<SCreate("A3", "grp", 60, rate)>>) : m \in {"A1", "A2"}, rate \in {1, 2} }
  \cup { Tx(<<SOp("SClaim", "A3", "grp")>>) }
  \cup { G("A2", <<SOp("STopUp", "A3", "grp") @@ [dep |-> 60, denom |-> "nund"]>>), G("A1", <<SOp("SRate", "A3", "grp") @@ [rate |-> 3]>>),
         G("A1", <<SOp("SCancel", "A3", "grp")>>) }
     \* ... by a stranger, or directly by a member in the policy account's name
  \cup { G("A3", <<SOp("SCancel", "A3", "grp")>>), Tx(<<SOp("SCancel", "A3", "grp")>>) @@ [signers |-> <<"A1">>] }
     \* a top-up that is rolled back with the proposal's second message (the transaction succeeds)
  \cup { G("A1", <<SOp("STopUp", "A3", "grp") @@ [dep |-> 60, denom |-> "nund"], [t |-> "Send", from |-> "grp", to |-> "A3", amt |-> 100000, denom |-> "nund"]>>) }
     \* ... and receives
  \cup { Tx(<<SCreate("grp", "A1", 60, 1)>>), G("A2", <<SOp("SClaim", "grp", "A1")>>), Tx(<<SOp("SCancel", "grp", "A1")>>) }
     \* registrations it owns (no registry fee is charged for nested operations: DESIGN 0.3, F-C06-nested-exec)
  \cup { G("A1", <<WReg("grp")>>), G("A2", <<BReg("grp")>>),
         G("A2", <<WRec("grp", 1, LastOf("wrk", 1) + 1)>>), G("A1", <<BRec("grp", 1)>>),
         G("A1", <<[t |-> "WBuy", owner |-> "grp", id |-> 1, n |-> 1]>>), G("A1", <<[t |-> "BBuy", owner |-> "grp", id |-> 1, n |-> 1]>>) }
     \* a member writing to the policy account's registration in its own name
  \cup { TxFee(<<WRec("A1", 1, LastOf("wrk", 1) + 1)>>, [nund |-> 1]), TxFee(<<BRec("A2", 1)>>, [nund |-> 1]) }
     \* a registration with a first record rolled back inside the proposal (the id stays free)
  \cup { G("A1", <<WReg("grp"), WRec("grp", st.wrk.next, 1), WRec("grp", st.wrk.next, 1)>>) }
     \* purchase orders: raised through a proposal, decided by the signer, minted and locked for the policy account
  \cup { G("A1", <<[t |-> "Raise", pur |-> "grp", amt |-> 40, denom |-> "nund"]>>),
         Tx(<<[t |-> "Decide", signer |-> "A1", id |-> 1, d |-> "accept"]>>),
         Tx(<<[t |-> "Whitelist", signer |-> "A1", addr |-> "grp", act |-> "remove"]>>) }
     \* a message that is not the policy account's inside a proposal; a transfer out by proposal
  \cup { G("A1", <<[t |-> "Send", from |-> "A1", to |-> "A3", amt |-> 1, denom |-> "nund"]>>),
         G("A2", <<[t |-> "Send", from |-> "grp", to |-> "A3", amt |-> 5, denom |-> "nund"]>>) }

Do(ev, ph) ==
  LET r == Step(st, ev) IN
  /\ st' = r.st /\ hist' = Append(hist, ev) /\ phase' = ph
  /\ IF ev.a = "DeliverTx"
     THEN /\ nTx' = nTx + 1 /\ nFail' = IF r.ok THEN nFail ELSE nFail + 1
          /\ (r.ok \/ nFail < MaxFail)
     ELSE UNCHANGED <<nTx, nFail>>

Next ==
  \/ /\ phase = "idle" /\ st.height < 3 + MaxHeight /\ ~st.halted
     /\ \E dt \in DTs : Do([a |-> "BeginBlock", dt |-> dt], "block")
  \/ /\ phase = "block" /\ nTx < MaxTx /\ ~st.halted
     /\ \E ev \in TxAlphabet : Do(ev, "block")
  \/ /\ phase = "block" /\ ~st.halted
     /\ LET r1 == Step(st, EndEv)  r2 == Step(r1.st, ComEv) IN
        st' = r2.st /\ hist' = hist \o <<EndEv, ComEv>> /\ phase' = "idle" /\ UNCHANGED <<nTx, nFail>>

Finish == phase = "idle" /\ (st.height >= 3 + MaxHeight \/ nTx >= MaxTx) /\ phase' = "done" /\ UNCHANGED <<st, hist, nTx, nFail>>
Spec == Init /\ [][Next]_vars
SpecSim == Init /\ [][Next \/ Finish]_vars
View == <<st, phase, nTx, nFail>>

DTsQuick == {2000, 70000}
DTsFull == {0, 2000, 30000, 70000}

Inv == /\ C10State(st) /\ C11State(st) /\ Conserved(st) /\ NotStranded(st) /\ NotHalted(st) /\ C02StateModel(st) /\ StoredParamsValid(st) /\ C15State(st)
       /\ C03State(st) /\ C04State(st) /\ C07Hist(st) /\ C08State(st)
StepProps == [][ hist' # hist =>
                 LET ev == hist'[Len(hist')] IN /\ C10Step(st, st', ev) /\ C02Step(st, st', ev) /\ C04Step(st, st', ev) /\ C05Step(st, st', ev) /\ C13Step(st, st', ev)
                                               /\ C07Step(st, st', ev) /\ C08Step(st, st', ev) /\ C09Step(st, st', ev) ]_vars
GoalEmit == [][ GoalStep(st, hist, st', hist') ]_vars
Emit == phase = "done" => PrintT(<<"TRACE", ToJson(hist)>>)
=============================================================================
