\* C19 quick: every input with <= 3 integer and <= 2 fractional digits over {0,1,5,9}
SPECIFICATION SpecEx
CONSTANTS
  Digits = {0, 1, 5, 9}
  MaxInt = 3
  MaxFrac = 2
  MinSig = 1
  MaxSig = 5
INVARIANT TypeOK
INVARIANT Props
INVARIANT Rendering
INVARIANT EmitAll
CHECK_DEADLOCK FALSE
