------------------------------ MODULE MC_Denom ------------------------------
(* C19 bounded models of Denom.tla.                                           *)
(*                                                                            *)
(* SpecEx  (exhaustive): the state is one input decimal x; the behaviours     *)
(*   grow x digit by digit (integer digits first, then fractional digits), so *)
(*   the reachable states are EXACTLY the decimal inputs with 1..MaxInt       *)
(*   integer digits and 0..MaxFrac fractional digits over the alphabet Digits *)
(*   (a tree: one distinct state per input).  TLC checks DenomProps in every  *)
(*   state and prints the conformance vectors of every input.                 *)
(* SpecSim (tlc -simulate): the initial state fixes a target shape            *)
(*   (ni integer digits, nf fractional digits, MinSig <= ni + nf <= MaxSig,   *)
(*   nf in 0..MaxFrac) and a leading digit; every step appends one random     *)
(*   digit; a final Done step marks the complete input, which is checked and  *)
(*   printed.  One behaviour = one long pseudo-random vector; every           *)
(*   fractional length is equally likely.  (The Done step exists because the  *)
(*   simulator evaluates invariants on ALL successors of a state before it    *)
(*   picks one: without it ten sibling inputs would be printed per behaviour.)*)
(* The expected strings of the vectors come from Denom.tla only.              *)
EXTENDS Denom, Json

CONSTANTS Digits,      \* digit alphabet, a subset of 0..9
          MaxInt,      \* SpecEx: maximal number of integer digits
          MaxFrac,     \* maximal number of fractional digits (<= 9)
          MinSig,      \* SpecSim: minimal / maximal number of digits ni + nf
          MaxSig

ASSUME Digits \subseteq Digit /\ MaxFrac \in 0..Places /\ MaxInt >= 1 /\ MinSig >= 1 /\ MaxSig >= MinSig

VARIABLES x,           \* the input decimal [int, frac]
          tgt          \* <<ni, nf, done>> target shape and completion flag (SpecSim), <<0, 0, 0>> in SpecEx
vars == <<x, tgt>>

------------------------------------------------------------------------------
InitEx == /\ \E d \in Digits : x = Dec(<<d>>, <<>>)
          /\ tgt = <<0, 0, 0>>
NextEx == /\ \E d \in Digits :
               \/ /\ x.frac = <<>> /\ Len(x.int) < MaxInt
                  /\ x' = Dec(Append(x.int, d), <<>>)
               \/ /\ Len(x.frac) < MaxFrac
                  /\ x' = Dec(x.int, Append(x.frac, d))
          /\ UNCHANGED tgt
SpecEx == InitEx /\ [][NextEx]_vars

InitSim == \E nf \in 0..MaxFrac :
           \E ni \in 1..(MaxSig - nf) :
             /\ ni + nf >= MinSig
             /\ tgt = <<ni, nf, 0>>
             /\ \E d \in (IF ni > 1 THEN Digits \ {0} ELSE Digits) : x = Dec(<<d>>, <<>>)
Shaped == Len(x.int) = tgt[1] /\ Len(x.frac) = tgt[2]
NextSim == \/ /\ ~Shaped
              /\ \E d \in Digits :
                   IF Len(x.int) < tgt[1] THEN x' = Dec(Append(x.int, d), <<>>)
                   ELSE x' = Dec(x.int, Append(x.frac, d))
              /\ UNCHANGED tgt
           \/ /\ Shaped /\ tgt[3] = 0
              /\ tgt' = <<tgt[1], tgt[2], 1>>
              /\ UNCHANGED x
SpecSim == InitSim /\ [][NextSim]_vars

Complete == Shaped /\ tgt[3] = 1

------------------------------------------------------------------------------
(* invariants *)
TypeOK == IsDecimal(x) /\ Len(x.int) >= 1 /\ Len(x.frac) <= Places

\* C19 on the ideal conversion, for the input of this state
Props == DenomProps(x)

\* the rendered strings are consistent with the digit sequences (lengths only: TLC has no string indexing)
Rendering ==
  /\ Len(NundStr(x)) = Len(ToNund(x))
  /\ Len(FundStr(ToNund(x))) = Len(ToFund(ToNund(x)).int) + 1 + Places
  /\ Len(DecStr(x)) = Len(x.int) + Len(x.frac) + (IF x.frac = <<>> THEN 0 ELSE 1)
  /\ BackStr(x) = FundStr(ToNund(x))

------------------------------------------------------------------------------
(* conformance vectors for the Go harness (harness/denom.go)                  *)
(*   fund -> nund of x              (+ expected result of the real round trip) *)
(*   nund -> fund of ToNund(x)      (a nund amount of >= 10 digits)            *)
(*   nund -> fund of the digits of x read as an integer number of nund         *)
Vec(amount, from, to, expect, back, i, f) ==
  PrintT(<<"VECTOR", ToJson([amount |-> amount, from |-> from, to |-> to, expect |-> expect, back |-> back, int |-> i, frac |-> f])>>)

EmitVec ==
  LET n == ToNund(x)
      m == IntCanon(x.int \o x.frac)
  IN /\ Vec(DecStr(x), "fund", "nund", NundStr(x), BackStr(x), x.int, x.frac)
     /\ Vec(Str(n), "nund", "fund", FundStr(n), "", n, <<>>)
     /\ Vec(Str(m), "nund", "fund", FundStr(m), "", m, <<>>)

\* inputs are emitted as a user writes them: no superfluous leading zeros in the integer part
\* (trailing fractional zeros are kept: "1.50" is an input with two fractional digits)
AsWritten == Len(x.int) = 1 \/ x.int[1] # 0

EmitAll      == AsWritten => EmitVec
EmitComplete == Complete => (Props /\ Rendering /\ EmitVec)
=============================================================================
