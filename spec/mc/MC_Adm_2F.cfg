SPECIFICATION Spec
CONSTANTS
  MaxLen = 2
  EqualFees = FALSE
INVARIANT Inv
INVARIANT Emit
CHECK_DEADLOCK FALSE
