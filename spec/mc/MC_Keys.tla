------------------------------- MODULE MC_Keys -------------------------------
(* C18.  Two bounded explorations of Keys.tla:                               *)
(*  PairSpec  every ORDERED PAIR of entities (sa, a), (sb, b) of one module's*)
(*            store, for id width W and byte alphabet Bytes of the cfg: the  *)
(*            layout of DESIGN Appendix C is injective, no prefix scan of one*)
(*            entity captures another entity's key, byte order = numeric     *)
(*            order, stream keys parse back to (receiver, sender).           *)
(*  KVSpec    every operation sequence of length MaxLen over four symbolic   *)
(*            logical keys K1..K4 per keeper section (group), on the ideal   *)
(*            map; each complete behaviour is printed as JSON and executed   *)
(*            on the REAL keepers with the symbolic keys instantiated from   *)
(*            boundary tables (harness `keys`), then judged by TraceKeys.    *)
EXTENDS Keys, TLC, Json

CONSTANTS PairModules,  \* modules whose stores PairSpec enumerates
          MaxLen        \* length of the KVSpec behaviours

VARIABLES ph,           \* "a" / "ab" (PairSpec), "kv" (KVSpec)
          sa, a, sb, b, \* the ordered pair of entities
          sec, hist     \* group and operation history of a KV behaviour
vars == <<ph, sa, a, sb, b, sec, hist, store>>

------------------------------------------------------------------------------
PairInit == /\ ph = "a"
            /\ sa \in UNION { SectionsOf(m) : m \in PairModules }
            /\ a \in LKeys(sa)
            /\ sb = sa /\ b = a
            /\ sec = "-" /\ hist = <<>> /\ KVInit
PairNext == /\ ph = "a" /\ ph' = "ab"
            /\ sb' \in SectionsOf(Layout[sa].mod)
            /\ b' \in LKeys(sb')
            /\ UNCHANGED <<sa, a, sec, hist, store>>
PairSpec == PairInit /\ [][PairNext]_vars
PairInv == ph = "ab" => PairOK(sa, a, sb, b)
ASSUME LayoutWellFormed
ASSUME BEIsInverseOfValOf

------------------------------------------------------------------------------
(* groups of four symbolic keys.  del: the keeper exports a delete for the section; flag: the      *)
(* section stores presence only (whitelist, queues), the value of a Set is 1.  The *mix groups put *)
(* the four keys into DIFFERENT sections of one module's store with equal ids / addresses.         *)
Groups == [
  po      |-> [del |-> FALSE, flag |-> FALSE],
  locked  |-> [del |-> FALSE, flag |-> FALSE],
  spent   |-> [del |-> FALSE, flag |-> FALSE],
  entmix  |-> [del |-> FALSE, flag |-> FALSE],
  wl      |-> [del |-> TRUE,  flag |-> TRUE],
  rq      |-> [del |-> TRUE,  flag |-> TRUE],
  aq      |-> [del |-> TRUE,  flag |-> TRUE],
  entflag |-> [del |-> TRUE,  flag |-> TRUE],
  wreg    |-> [del |-> FALSE, flag |-> FALSE],
  wrec    |-> [del |-> FALSE, flag |-> FALSE],
  wlim    |-> [del |-> FALSE, flag |-> FALSE],
  wmix    |-> [del |-> FALSE, flag |-> FALSE],
  breg    |-> [del |-> FALSE, flag |-> FALSE],
  brec    |-> [del |-> FALSE, flag |-> FALSE],
  blim    |-> [del |-> FALSE, flag |-> FALSE],
  bmix    |-> [del |-> FALSE, flag |-> FALSE],
  str     |-> [del |-> TRUE,  flag |-> FALSE] ]
SymKeys == {"K1", "K2", "K3", "K4"}

KVStart == /\ ph = "kv"
           /\ sec \in DOMAIN Groups
           /\ hist = <<>> /\ KVInit
           /\ sa = "-" /\ a = 0 /\ sb = "-" /\ b = 0
DoSet(k) == LET v == IF Groups[sec].flag THEN 1 ELSE Len(hist) + 1 IN
            /\ KVSet(k, v)
            /\ hist' = Append(hist, [op |-> "Set", sec |-> sec, k |-> k, v |-> v])
DoDel(k) == /\ Groups[sec].del
            /\ KVDel(k)
            /\ hist' = Append(hist, [op |-> "Del", sec |-> sec, k |-> k, v |-> 0])
KVNext == /\ ph = "kv" /\ Len(hist) < MaxLen
          /\ \E k \in SymKeys : DoSet(k) \/ DoDel(k)
          /\ UNCHANGED <<ph, sa, a, sb, b, sec>>
KVSpec == KVStart /\ [][KVNext]_vars

\* the ideal map's own guarantees, for every logical order the instantiation may give the symbolic keys
Orders == { o \in [1..4 -> SymKeys] : \A i, j \in 1..4 : o[i] = o[j] => i = j }
KVStateInv == ph = "kv" => \A o \in Orders : IterateExact(store, o)
KVStepProps ==
  [][ (ph = "kv" /\ hist' # hist) =>
        LET op == hist'[Len(hist')] IN
        /\ NonInterference(store, store', op.k, SymKeys)
        /\ Get(store', op.k) = (IF op.op = "Set" THEN op.v ELSE Absent) ]_vars
Emit == (ph = "kv" /\ Len(hist) = MaxLen) => PrintT(<<"TRACE", ToJson(hist)>>)
=============================================================================
