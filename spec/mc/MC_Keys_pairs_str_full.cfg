SPECIFICATION PairSpec
CONSTANTS
  W = 1
  Bytes = {1, 2, 3}
  MaxAddrLen = 3
  PairModules = {"str"}
  MaxLen = 0
INVARIANT PairInv
CHECK_DEADLOCK FALSE
