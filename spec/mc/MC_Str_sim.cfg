SPECIFICATION SpecSim
CONSTANTS
  Pre <- NoPre
  FailingGov = FALSE
  MaxHeight = 8
  MaxTx = 16
  MaxFail = 4
  MaxStreams = 3
  Fees <- FeesFull
  DTs <- DTsFull
INVARIANT Inv
INVARIANT Emit
PROPERTY StepProps
CHECK_DEADLOCK FALSE
