------------------------------- MODULE MC_Str -------------------------------
(* Bounded model of payment streams (C10, C11, C12): create / claim /        *)
(* top-up / flow-rate change / cancel over several sender-receiver pairs and *)
(* two denominations, block-time advances of 0 s, sub-second, seconds and    *)
(* beyond the deposit-zero time, validator-fee changes through governance,   *)
(* and direct transfers aimed at the escrow account.                         *)
EXTENDS Genesis

CONSTANTS MaxHeight, MaxTx, MaxFail, MaxStreams, Fees, DTs, FailingGov, Pre
VARIABLES st, phase, hist, nTx, nFail
vars == <<st, phase, hist, nTx, nFail>>

Accts == <<"A1", "A2", "A3">>
AcctSet == Range(Accts)

Gen == [accts |-> Accts,
        bal |-> [a \in AcctSet |-> [nund |-> 500, other |-> 300]],
        ent |-> [signers |-> <<"A1">>, min |-> 1, limit |-> 2, denom |-> "nund", wl |-> <<>>, startId |-> 1],
        wrk |-> [feeReg |-> 4, feeRec |-> 1, feePur |-> 1, denom |-> "nund", def |-> 1, max |-> 3, startId |-> 1],
        bcn |-> [feeReg |-> 4, feeRec |-> 1, feePur |-> 1, denom |-> "nund", def |-> 2, max |-> 3, startId |-> 1],
        str |-> [feeNum |-> 1, feeDen |-> 10]]

\* Pre: a scripted prefix (events) executed before the exploration starts; it ends inside an open block
Init == /\ st = FoldL(LAMBDA ev, s : Step(s, ev).st, StateOf(Gen), Pre)
        /\ phase = (IF Pre = <<>> THEN "idle" ELSE "block")
        /\ hist = <<[a |-> "InitChain", g |-> Gen]>> \o Pre /\ nTx = 0 /\ nFail = 0 /\ GoalRegsInit

Pairs == { <<r, s>> \in AcctSet \X AcctSet : r # s /\ r \in {"A2", "A3"} /\ s \in {"A1", "A2"} }
SCreate(r, s, dep, den, rate) == [t |-> "SCreate", sender |-> s, receiver |-> r, dep |-> dep, denom |-> den, rate |-> rate]

TxAlphabet ==
     { Tx(<<SCreate(p[1], p[2], dep, den, rate)>>) : p \in Pairs, dep \in {60, 120, 250}, den \in {"nund", "other"}, rate \in {1, 2} }
  \cup { Tx(<<[t |-> "SClaim", sender |-> p[2], receiver |-> p[1]]>>) : p \in Pairs }
  \cup { Tx(<<[t |-> "STopUp", sender |-> p[2], receiver |-> p[1], dep |-> n, denom |-> den]>>) : p \in Pairs, n \in {1, 60, 600}, den \in {"nund", "other"} }
  \cup { Tx(<<[t |-> "SRate", sender |-> p[2], receiver |-> p[1], rate |-> n]>>) : p \in Pairs, n \in {1, 3} }
  \cup { Tx(<<[t |-> "SCancel", sender |-> p[2], receiver |-> p[1]]>>) : p \in Pairs }
  \cup { Tx(<<[t |-> "SClaim", sender |-> "A3", receiver |-> "A1"]>>), Tx(<<[t |-> "SCancel", sender |-> "A3", receiver |-> "A2"]>>) }
  \* the parties of A2's stream to A3 named in each other's role
  \cup { Tx(<<[t |-> "SRate", sender |-> "A3", receiver |-> "A2", rate |-> 3]>>), Tx(<<[t |-> "STopUp", sender |-> "A3", receiver |-> "A2", dep |-> 60, denom |-> "nund"]>>) }
  \cup { Tx(<<[t |-> "Send", from |-> "A1", to |-> "stream", amt |-> 5, denom |-> "nund"]>>) }
  \cup { Tx(<<SCreate("stream", "A1", 60, "nund", 1)>>), Tx(<<SCreate("A1", "A1", 60, "nund", 1)>>), Tx(<<SCreate("A2", "A1", 59, "nund", 1)>>) }
  \* receivers the bank refuses to pay, also in the upper-case spelling of their address (the same account)
  \cup { Tx(<<SCreate(r, "A1", 60, "nund", 1) @@ [enc |-> e]>>) : r \in {"feecol", "ent"}, e \in {"lower", "upper"} }
  \cup { Tx(<<[t |-> "SClaim", sender |-> "A1", receiver |-> "A2"], [t |-> "Send", from |-> "A2", to |-> "A3", amt |-> 1, denom |-> "nund"]>>) }
  \* a stream created and topped up inside a transaction that is rolled back (the pair stays free)
  \cup { Tx(<<SCreate("A2", "A1", 60, "nund", 1), [t |-> "STopUp", sender |-> "A1", receiver |-> "A2", dep |-> 60, denom |-> "nund"], SCreate("A2", "A1", 60, "nund", 1)>>) }
  \* an existing stream topped up and re-rated, or cancelled, inside a transaction that is rolled back (the stream stays what it was)
  \cup { Tx(<<[t |-> "STopUp", sender |-> "A1", receiver |-> "A2", dep |-> 60, denom |-> st.str.s[SKey("A2", "A1")].den],
              [t |-> "SRate", sender |-> "A1", receiver |-> "A2", rate |-> 3], SCreate("A2", "A1", 60, "nund", 1)>>) : x \in (IF SKey("A2", "A1") \in DOMAIN st.str.s THEN {1} ELSE {}) }
  \cup { Tx(<<[t |-> "SCancel", sender |-> "A1", receiver |-> "A2"], [t |-> "SCancel", sender |-> "A1", receiver |-> "A2"], [t |-> "SCancel", sender |-> "A1", receiver |-> "A2"]>>) }
  \cup { GovTxFor(st, "str", Fees[i]) : i \in (IF FailingGov THEN {} ELSE DOMAIN Fees) }
  \cup (IF FailingGov THEN { GovTxFailingFor(st, "str", Fees[i]) : i \in DOMAIN Fees } ELSE {})

\* the rolled-back creation scripts (three messages) do not use up the ration of failing transactions
Scripted(ev) == Len(ev.msgs) >= 3
Do(ev, ph) ==
  LET r == Step(st, ev) IN
  /\ st' = r.st /\ hist' = Append(hist, ev) /\ phase' = ph
  /\ IF ev.a = "DeliverTx"
     THEN /\ nTx' = nTx + 1 /\ nFail' = IF r.ok \/ Scripted(ev) THEN nFail ELSE nFail + 1
          /\ (r.ok \/ Scripted(ev) \/ nFail < MaxFail)
     ELSE UNCHANGED <<nTx, nFail>>

Next ==
  \/ /\ phase = "idle" /\ st.height < 2 + MaxHeight /\ ~st.halted
     /\ \E dt \in DTs : Do([a |-> "BeginBlock", dt |-> dt], "block")
  \/ /\ phase = "block" /\ nTx < MaxTx /\ ~st.halted
     /\ \E ev \in TxAlphabet :
          /\ (ev.msgs[1].t = "SCreate" => Cardinality(DOMAIN st.str.s) < MaxStreams)
          /\ Do(ev, "block")
  \/ /\ phase = "block" /\ ~st.halted
     /\ LET r1 == Step(st, EndEv)  r2 == Step(r1.st, ComEv) IN
        st' = r2.st /\ hist' = hist \o <<EndEv, ComEv>> /\ phase' = "idle" /\ UNCHANGED <<nTx, nFail>>

Finish == phase = "idle" /\ (st.height >= 2 + MaxHeight \/ nTx >= MaxTx) /\ phase' = "done" /\ UNCHANGED <<st, hist, nTx, nFail>>
Spec == Init /\ [][Next]_vars
SpecSim == Init /\ [][Next \/ Finish]_vars
View == <<st, phase, nTx, nFail>>

FeesQuick == << [feeNum |-> 1, feeDen |-> 2], [feeNum |-> 0, feeDen |-> 1] >>
FeesFull == FeesQuick \o << [feeNum |-> 1, feeDen |-> 1], [feeNum |-> 1, feeDen |-> 100] >>
DTsQuick == {0, 500, 30000, 59600, 200000}
DTsFull == {0, 500, 1000, 30000, 59600, 60000, 200000}
DTsGhost == {2000}
DTsDeep == {0, 30000}
NoPre == <<>>
\* a stream that ran dry and was claimed in full, a second one still live; then an open block half a minute later
PreDrained == << [a |-> "BeginBlock", dt |-> 1000],
                 Tx(<<SCreate("A2", "A1", 120, "nund", 2)>>), Tx(<<SCreate("A3", "A2", 250, "nund", 1)>>),
                 EndEv, ComEv, [a |-> "BeginBlock", dt |-> 70000],
                 Tx(<<[t |-> "SClaim", sender |-> "A1", receiver |-> "A2"]>>),
                 EndEv, ComEv, [a |-> "BeginBlock", dt |-> 30000] >>

Inv == C10State(st) /\ C11State(st) /\ Conserved(st) /\ NotStranded(st) /\ NotHalted(st) /\ C02StateModel(st) /\ StoredParamsValid(st) /\ C15State(st)
StepProps == [][ hist' # hist =>
                 LET ev == hist'[Len(hist')] IN C10Step(st, st', ev) /\ C02Step(st, st', ev) /\ C04Step(st, st', ev) ]_vars
\* coverage goals: print the behaviours that exercise the rare situations of Goals.tla (every explored transition)
GoalEmit == [][ GoalStep(st, hist, st', hist') ]_vars
Emit == phase = "done" => PrintT(<<"TRACE", ToJson(hist)>>)

SweepPrefix == << [a |-> "BeginBlock", dt |-> 1000],
                  Tx(<<SCreate("A2", "A1", 120, "nund", 2)>>), Tx(<<SCreate("A3", "A1", 60, "other", 1)>>), Tx(<<SCreate("A3", "A2", 250, "nund", 1)>>),
                  EndEv, ComEv, [a |-> "BeginBlock", dt |-> 30000],
                  Tx(<<[t |-> "SClaim", sender |-> "A1", receiver |-> "A2"]>>),
                  EndEv, ComEv, [a |-> "BeginBlock", dt |-> 40500] >>
=============================================================================
