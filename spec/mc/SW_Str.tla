------------------------------- MODULE SW_Str -------------------------------
(* Alphabet sweep over MC_Str: a scripted prefix prepares a state, then EVERY *)
(* transaction class of the alphabet is executed once (no rationing), then a *)
(* scripted tail runs.  One event per TLC step (a script counter), explored  *)
(* breadth-first; every complete behaviour is replayed on the real app.      *)
EXTENDS MC_Str

VARIABLE todo      \* events still to execute in the current script segment
swvars == <<st, phase, hist, nTx, nFail, todo>>

SweepTail == <<EndEv, ComEv, [a |-> "BeginBlock", dt |-> 1000],
               Tx(<<[t |-> "SClaim", sender |-> "A1", receiver |-> "A2"]>>), Tx(<<[t |-> "SClaim", sender |-> "A2", receiver |-> "A3"]>>), EndEv, ComEv>>

\* degenerate inputs (zero amounts and rates, durations just below the minimum, an empty denomination): stateless
\* validation must refuse each of them whole
Degenerate ==
  { Tx(<<SCreate("A3", "A2", dep, "nund", rate)>>) : dep \in {0, 119, 120}, rate \in {0, 2} }
  \cup { Tx(<<[t |-> "STopUp", sender |-> "A1", receiver |-> "A2", dep |-> 0, denom |-> "nund"]>>),
         Tx(<<[t |-> "SRate", sender |-> "A1", receiver |-> "A2", rate |-> 0]>>),
         Tx(<<[t |-> "Send", from |-> "A1", to |-> "A2", amt |-> 0, denom |-> "nund"]>>) }
SweepAlphabet == TxAlphabet \cup Degenerate

SwInit ==  /\ st = StateOf(Gen) /\ hist = <<[a |-> "InitChain", g |-> Gen]>>
          /\ todo = SweepPrefix /\ phase = "prefix" /\ nTx = 0 /\ nFail = 0
SwRun == /\ todo # <<>>
         /\ st' = Step(st, Head(todo)).st /\ hist' = Append(hist, Head(todo)) /\ todo' = Tail(todo)
         /\ UNCHANGED <<phase, nTx, nFail>>
SwChoose == /\ todo = <<>> /\ phase = "prefix"
            /\ \E ev \in SweepAlphabet :
                 /\ st' = Step(st, ev).st /\ hist' = Append(hist, ev)
                 /\ todo' = SweepTail /\ phase' = "tail" /\ nTx' = 1 /\ UNCHANGED nFail
SwDone == todo = <<>> /\ phase = "tail" /\ phase' = "done" /\ UNCHANGED <<st, hist, nTx, nFail, todo>>
SwSpec == SwInit /\ [][SwRun \/ SwChoose \/ SwDone]_swvars
SwStepProps == [][ hist' # hist => LET ev == hist'[Len(hist')] IN C10Step(st, st', ev) /\ C02Step(st, st', ev) /\ C04Step(st, st', ev) ]_swvars
=============================================================================
