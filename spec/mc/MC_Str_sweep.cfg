SPECIFICATION SpecSweep
CONSTANTS
  MaxHeight = 8
  MaxTx = 16
  MaxFail = 4
  MaxStreams = 3
  Fees <- FeesFull
  DTs <- DTsFull
INVARIANT Inv
INVARIANT Emit
CHECK_DEADLOCK FALSE
