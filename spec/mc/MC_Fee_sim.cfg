SPECIFICATION SpecSim
CONSTANTS
  WithFeeGrant = FALSE
  MaxHeight = 8
  MaxTx = 16
  MaxFail = 5
  Amounts <- AmountsFull
INVARIANT Inv
INVARIANT Emit
PROPERTY StepProps
CHECK_DEADLOCK FALSE
