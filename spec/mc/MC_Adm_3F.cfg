SPECIFICATION Spec
CONSTANTS
  MaxLen = 3
  EqualFees = FALSE
INVARIANT Inv
INVARIANT Emit
CHECK_DEADLOCK FALSE
