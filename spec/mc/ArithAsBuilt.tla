---------------------------- MODULE ArithAsBuilt ----------------------------
(* VECTOR GENERATOR, not an oracle.  A reading of the Go arithmetic of        *)
(* x/stream (int64 / uint64 / time.Duration, sdk.Dec.TruncateInt64) next to  *)
(* the ideal arithmetic of StreamArith.tla, over symbolic inputs in the      *)
(* domain the chain accepts.  Apalache is asked for inputs on which the two  *)
(* DISAGREE (each Agree_* is checked as an invariant of the initial states;  *)
(* a counterexample is a witness).  The witnesses become scenarios that the  *)
(* harness executes on the real code; the verdict on them is ArithJudge's    *)
(* (ideal arithmetic only).  If the code's arithmetic is repaired this model *)
(* is out of date, and its witnesses simply pass.                            *)
EXTENDS Integers, StreamArith

CONSTANTS
  \* @type: Int;
  MaxDep,      \* largest deposit considered (2^200, or a realistic cap)
  \* @type: Int;
  MaxRate      \* largest flow rate considered (2^63 - 1, or a realistic cap)

VARIABLES
  \* @type: Int;
  dep,
  \* @type: Int;
  rate,
  \* @type: Int;
  secs,        \* whole seconds elapsed at the claim
  \* @type: Int;
  num,
  \* @type: Int;
  den

MaxI64 == 9223372036854775807
Two63 == MaxI64 + 1
Two64 == 2 * Two63
Unit == 1000000000
\* Go / protobuf timestamps end with year 9999 (seconds from the scenario epoch)
LastSec == 251702300799

WrapI64(x) == ((x + Two63) % Two64) - Two63
WrapU64(x) == x % Two64

\* constant initialisers (apalache-mc --cinit): the whole accepted domain, native-coin amounts, 18-decimal tokens
CInitAny  == MaxDep = 2^200 /\ MaxRate = MaxI64
CInitNund == MaxDep = 120000000000000000 /\ MaxRate = 1000000000000
CInitErc  == MaxDep = 10^27 /\ MaxRate = MaxI64

Init ==
  /\ dep \in 1..MaxDep /\ rate \in 1..MaxRate
  /\ secs \in 0..LastSec
  /\ den \in {1, 2, 3, 10, 100, 1000} /\ num \in 0..den
  /\ IDuration(dep, rate) >= 60                      \* MsgCreateStream.ValidateBasic
Next == UNCHANGED <<dep, rate, secs, num, den>>

Dur == IDuration(dep, rate)
Representable == Dur <= LastSec

\* CalculateDuration: Dec.TruncateInt64 panics above MaxI64
DurationPanics == Dur > MaxI64
\* AddDeposit / SetNewFlowRate: now.Add(time.Second * time.Duration(d)) - the product wraps in int64
AsBuiltZeroOffset == WrapI64(Dur * Unit)
Agree_ZeroTime == (Representable /\ ~DurationPanics) => AsBuiltZeroOffset = Dur * Unit

\* CalculateAmountToClaim before the zero time: uint64(int64(secs) * rate), then min with the deposit
AsBuiltClaim == LET c == WrapU64(secs * rate) IN IF dep > c THEN c ELSE dep
IdealClaim == LET c == secs * rate IN IF dep > c THEN c ELSE dep
Agree_Release == (Representable /\ secs < Dur) => AsBuiltClaim = IdealClaim

\* CalculateValidatorFee: Dec.Mul(fee).TruncateInt64 panics above MaxI64 (claim of the whole deposit at expiry)
FeePanics == num > 0 /\ (dep * num) \div den > MaxI64
Agree_FeeNoPanic == Representable => ~FeePanics
\* ... and of a partial release
Agree_FeeNoPanicPartial == (Representable /\ secs < Dur) => ~(num > 0 /\ (IdealClaim * num) \div den > MaxI64)
=============================================================================
