------------------------------- MODULE MC_Reg -------------------------------
(* Bounded model of the WRKChain / BEACON registries (C07, C08, C09):        *)
(* registrations by several accounts, records by owners and strangers at     *)
(* lower / equal / next / gapped / huge heights, storage purchases (zero,    *)
(* exact-to-max, over-max, huge; top-level and wrapped in Exec), governance  *)
(* changes of the default / maximum limits mid-history.                      *)
EXTENDS Genesis

CONSTANTS MaxHeight, MaxTx, MaxFail, MaxReg, MaxRec, Presets, FailingGov, Pre
VARIABLES st, phase, hist, nTx, nFail
vars == <<st, phase, hist, nTx, nFail>>

Accts == <<"A1", "A2", "A3">>
AcctSet == Range(Accts)
Big == 500002999          \* abstraction code of 2^64 - 1 (harness/proj.go absBig)

Gen == [accts |-> Accts,
        bal |-> [a \in AcctSet |-> [nund |-> 400, other |-> 0]],
        ent |-> [signers |-> <<"A1">>, min |-> 1, limit |-> 2, denom |-> "nund", wl |-> <<>>, startId |-> 1],
        wrk |-> [feeReg |-> 4, feeRec |-> 1, feePur |-> 1, denom |-> "nund", def |-> 1, max |-> 3, startId |-> 1],
        bcn |-> [feeReg |-> 4, feeRec |-> 1, feePur |-> 1, denom |-> "nund", def |-> 2, max |-> 3, startId |-> 1],
        str |-> [feeNum |-> 1, feeDen |-> 100]]

\* Pre: a scripted prefix (events) executed before the exploration starts; it ends inside an open block
Init == /\ st = FoldL(LAMBDA ev, s : Step(s, ev).st, StateOf(Gen), Pre)
        /\ phase = (IF Pre = <<>> THEN "idle" ELSE "block")
        /\ hist = <<[a |-> "InitChain", g |-> Gen]>> \o Pre /\ nTx = 0 /\ nFail = 0 /\ GoalRegsInit

\* a registry transaction offers exactly the fee of its top-level operations
FeeTx(msgs) == LET f == SumFees(st.wrk.p, TopOps(msgs, "wrk")) + SumFees(st.bcn.p, TopOps(msgs, "bcn"))
               IN TxFee(msgs, IF f > 0 THEN [nund |-> f] ELSE <<>>)
WRec(o, id, h) == [t |-> "WRec", owner |-> o, id |-> id, h |-> h, bh |-> "b", ph |-> "", h1 |-> "", h2 |-> "", h3 |-> ""]
BRec(o, id)    == [t |-> "BRec", owner |-> o, id |-> id, hash |-> "x", subt |-> 7]
WBuy(o, id, n) == [t |-> "WBuy", owner |-> o, id |-> id, n |-> n]
BBuy(o, id, n) == [t |-> "BBuy", owner |-> o, id |-> id, n |-> n]
Exec1(m)       == [t |-> "Exec", grantee |-> m.owner, msgs |-> <<m>>]

LastOf(k, id) == IF ChExists(st, k, id) THEN ChOf(st, k, id).last ELSE 0
\* heights are uint64 on the wire: nothing above Big (the code of 2^64 - 1) can be submitted
CapH(h) == IF h > Big THEN Big ELSE h
\* ... the next height, one beyond it (leaving a gap), the last one again, the height below the last one (in a gap or pruned), 2^64 - 1
Heights(id) == {CapH(LastOf("wrk", id) + 1), CapH(LastOf("wrk", id) + 2), LastOf("wrk", id), Big}
               \cup (IF LastOf("wrk", id) > 1 /\ LastOf("wrk", id) < Big THEN {LastOf("wrk", id) - 1} ELSE {})

TxAlphabet ==
     { FeeTx(<<[t |-> "WReg", owner |-> a, moniker |-> m, name |-> "n", genesis |-> "g", type |-> "t"]>>) : a \in {"A1", "A2"}, m \in {"m", ""} }
  \cup { FeeTx(<<[t |-> "BReg", owner |-> a, moniker |-> "m", name |-> "n"]>>) : a \in {"A1", "A2"} }
  \cup { FeeTx(<<WRec(a, id, h)>>) : a \in AcctSet, id \in 1..MaxReg, h \in UNION { Heights(i) : i \in 1..MaxReg } }
  \cup { FeeTx(<<BRec(a, id)>>) : a \in AcctSet, id \in 1..MaxReg }
  \cup { FeeTx(<<WBuy(a, id, n)>>) : a \in {"A1", "A2"}, id \in 1..MaxReg, n \in {1, 2, 3} }
  \cup { FeeTx(<<BBuy(a, id, n)>>) : a \in {"A1", "A2"}, id \in 1..MaxReg, n \in {1, 2} }
  \cup { Tx(<<Exec1(WBuy(a, id, n))>>) : a \in {"A1", "A2"}, id \in 1..MaxReg, n \in {1, Big} }
  \cup { Tx(<<Exec1(BBuy(a, id, n))>>) : a \in {"A1"}, id \in 1..MaxReg, n \in {2, Big} }
  \cup { FeeTx(<<WRec("A1", 1, CapH(LastOf("wrk", 1) + 1)), WRec("A1", 1, CapH(LastOf("wrk", 1) + 2))>>) }
  \cup { FeeTx(<<BRec("A1", 1), BRec("A1", 1), BRec("A2", 1)>>) }
  \cup { FeeTx(<<BBuy("A1", 1, 1), BBuy("A1", 1, 1)>>), FeeTx(<<WBuy("A1", 1, 1), WBuy("A1", 1, 2)>>) }
  \* a storage purchase that is rolled back because a later message of the transaction fails (three messages: scripted)
  \cup { FeeTx(<<WBuy(a, 1, 1), WRec(a, 1, CapH(LastOf("wrk", 1) + 1)), WRec(a, 1, LastOf("wrk", 1))>>) : a \in {"A1", "A2"} }
  \cup { FeeTx(<<BBuy("A1", 1, 1), BRec("A1", 1), BRec("A2", 1)>>) }
  \* a registration and a first record that are rolled back because the last message fails (the id stays free)
  \cup { FeeTx(<<[t |-> "WReg", owner |-> a, moniker |-> "m", name |-> "n", genesis |-> "g", type |-> "t"],
                  WRec(a, st.wrk.next, 1), WRec(a, st.wrk.next, 1)>>) : a \in {"A2", "A3"} }
  \cup { FeeTx(<<[t |-> "BReg", owner |-> "A3", moniker |-> "m", name |-> "n"], BRec("A3", st.bcn.next), BRec("A2", st.bcn.next)>>) }
  \cup { GovTxFor(st, "wrk", Presets[i]) : i \in (IF FailingGov THEN {} ELSE DOMAIN Presets) }
  \cup { GovTxFor(st, "bcn", Presets[i]) : i \in (IF FailingGov THEN {} ELSE DOMAIN Presets) }
  \cup (IF FailingGov THEN { GovTxFailingFor(st, "wrk", Presets[i]) : i \in DOMAIN Presets } ELSE {})

TotalRecs == SeqSum([i \in DOMAIN st.aux.ever.wrk |-> Len(st.aux.ever.wrk[i])]) + SeqSum([i \in DOMAIN st.aux.ever.bcn |-> Len(st.aux.ever.bcn[i])])

\* the rolled-back creation scripts (three messages) do not use up the ration of failing transactions
Scripted(ev) == Len(ev.msgs) >= 3
Do(ev, ph) ==
  LET r == Step(st, ev) IN
  /\ st' = r.st /\ hist' = Append(hist, ev) /\ phase' = ph
  /\ IF ev.a = "DeliverTx"
     THEN /\ nTx' = nTx + 1 /\ nFail' = IF r.ok \/ Scripted(ev) THEN nFail ELSE nFail + 1
          /\ (r.ok \/ Scripted(ev) \/ nFail < MaxFail)
     ELSE UNCHANGED <<nTx, nFail>>

Next ==
  \/ /\ phase = "idle" /\ st.height < 2 + MaxHeight /\ ~st.halted
     /\ \E dt \in {1000, 2000} : Do([a |-> "BeginBlock", dt |-> dt], "block")
  \/ /\ phase = "block" /\ nTx < MaxTx /\ ~st.halted
     /\ \E ev \in TxAlphabet :
          /\ (ev.msgs[1].t \in {"WReg"} => Len(st.wrk.ch) < MaxReg)
          /\ (ev.msgs[1].t \in {"BReg"} => Len(st.bcn.ch) < MaxReg)
          /\ (ev.msgs[1].t \in {"WRec", "BRec"} => TotalRecs < MaxRec)
          /\ Do(ev, "block")
  \/ /\ phase = "block" /\ ~st.halted
     /\ LET r1 == Step(st, EndEv)  r2 == Step(r1.st, ComEv) IN
        st' = r2.st /\ hist' = hist \o <<EndEv, ComEv>> /\ phase' = "idle" /\ UNCHANGED <<nTx, nFail>>

Finish == phase = "idle" /\ (st.height >= 2 + MaxHeight \/ nTx >= MaxTx) /\ phase' = "done" /\ UNCHANGED <<st, hist, nTx, nFail>>
Spec == Init /\ [][Next]_vars
SpecSim == Init /\ [][Next \/ Finish]_vars
View == <<st, phase, nTx, nFail>>

\* alphabet sweep: from a prepared state, every transaction class of the alphabet once (no rationing),
\* followed by one more block; explored breadth-first so that each class is replayed on the real code
SweepPrefix == << [a |-> "BeginBlock", dt |-> 1000],
                  TxFee(<<[t |-> "WReg", owner |-> "A1", moniker |-> "m", name |-> "n", genesis |-> "g", type |-> "t"]>>, [nund |-> 4]),
                  TxFee(<<[t |-> "BReg", owner |-> "A1", moniker |-> "m", name |-> "n"]>>, [nund |-> 4]),
                  TxFee(<<WRec("A1", 1, 1)>>, [nund |-> 1]), TxFee(<<WRec("A1", 1, 2)>>, [nund |-> 1]),
                  TxFee(<<BRec("A1", 1)>>, [nund |-> 1]), TxFee(<<BRec("A1", 1)>>, [nund |-> 1]),
                  EndEv, ComEv, [a |-> "BeginBlock", dt |-> 1000] >>

\* two WRKChains and two BEACONs of two owners, the first of each with a record; an open block follows
PreTwo == << [a |-> "BeginBlock", dt |-> 1000],
             TxFee(<<[t |-> "WReg", owner |-> "A1", moniker |-> "m", name |-> "n", genesis |-> "g", type |-> "t"]>>, [nund |-> 4]),
             TxFee(<<[t |-> "WReg", owner |-> "A2", moniker |-> "m2", name |-> "n", genesis |-> "g", type |-> "t"]>>, [nund |-> 4]),
             TxFee(<<[t |-> "BReg", owner |-> "A1", moniker |-> "m", name |-> "n"]>>, [nund |-> 4]),
             TxFee(<<[t |-> "BReg", owner |-> "A2", moniker |-> "m2", name |-> "n"]>>, [nund |-> 4]),
             TxFee(<<WRec("A1", 1, 1)>>, [nund |-> 1]), TxFee(<<BRec("A1", 1)>>, [nund |-> 1]),
             EndEv, ComEv, [a |-> "BeginBlock", dt |-> 1000] >>
NoPre == <<>>
SmallCap == 2      \* export cap of the model (the code keeps the newest 20,000)
PresetsQuick == << [feeReg |-> 4, feeRec |-> 1, feePur |-> 1, denom |-> "nund", def |-> 2, max |-> 2],
                   [feeReg |-> 4, feeRec |-> 1, feePur |-> 1, denom |-> "nund", def |-> 1, max |-> 1] >>
PresetsFull == PresetsQuick \o << [feeReg |-> 5, feeRec |-> 2, feePur |-> 2, denom |-> "nund", def |-> 2, max |-> 4] >>

Inv == C08State(st) /\ C07Hist(st) /\ NotHalted(st) /\ C04State(st) /\ C02StateModel(st) /\ StoredParamsValid(st) /\ C15State(st)
StepProps == [][ hist' # hist =>
                 LET ev == hist'[Len(hist')] IN
                 C07Step(st, st', ev) /\ C08Step(st, st', ev) /\ C09Step(st, st', ev) /\ C02Step(st, st', ev) ]_vars
W_Pruned == ~\E i \in DOMAIN st.wrk.ch : Len(st.aux.ever.wrk[i]) > Len(st.wrk.ch[i].recs)
\* coverage goals: print the behaviours that exercise the rare situations of Goals.tla (every explored transition)
GoalEmit == [][ GoalStep(st, hist, st', hist') ]_vars
Emit == phase = "done" => PrintT(<<"TRACE", ToJson(hist)>>)
=============================================================================
