SPECIFICATION Spec
INVARIANT Inv
INVARIANT Emit
PROPERTY StepProps
CHECK_DEADLOCK FALSE
