SPECIFICATION Spec
CONSTANTS
  Pre <- NoPre
  FailingGov = FALSE
  MaxHeight = 2
  MaxTx = 4
  MaxFail = 1
  MaxReg = 1
  MaxRec = 4
  GenCap <- SmallCap
  Presets <- PresetsQuick
VIEW View
INVARIANT Inv
PROPERTY StepProps
PROPERTY GoalEmit
CHECK_DEADLOCK FALSE
