SPECIFICATION SpecSim
CONSTANTS
  Pre <- NoPre
  FailingGov = FALSE
  MaxHeight = 6
  MaxTx = 18
  MaxFail = 4
  MaxReg = 2
  MaxRec = 12
  GenCap <- SmallCap
  Presets <- PresetsFull
INVARIANT Inv
INVARIANT Emit
PROPERTY StepProps
CHECK_DEADLOCK FALSE
