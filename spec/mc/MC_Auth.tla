------------------------------- MODULE MC_Auth -------------------------------
(* C13: every message type x every account as TRANSACTION SIGNER x every     *)
(* account as the ADDRESS NAMED in the message, from a prepared state (order *)
(* raised, WRKChain + BEACON registered, stream live), in three encodings:   *)
(*  (a) the message names x and the transaction is signed only by y's key;   *)
(*  (b) the message names x and is properly signed by x;                     *)
(*  (c) y wraps the message naming x in a self-signed MsgExec;               *)
(*  (d)-(g) the same through x/authz grants: granted for the type, granted   *)
(*      for another type, granted and revoked, executed by a third party.    *)
(*  (h) the message names the group policy account (x/group) and is carried  *)
(*      by a proposal of a member, of a stranger, or signed by a member.     *)
(* Explored breadth-first; every behaviour is replayed on the real app.      *)
EXTENDS Genesis

VARIABLES st, phase, hist, nTx, todo
vars == <<st, phase, hist, nTx, todo>>

Accts == <<"A1", "A2", "A3", "A4">>
AcctSet == Range(Accts)

Gen == [accts |-> Accts,
        bal |-> [a \in AcctSet |-> [nund |-> 500, other |-> 100]],
        ent |-> [signers |-> <<"A1">>, min |-> 1, limit |-> 50, denom |-> "nund", wl |-> <<"A3">>, startId |-> 1],
        wrk |-> [feeReg |-> 4, feeRec |-> 1, feePur |-> 1, denom |-> "nund", def |-> 2, max |-> 4, startId |-> 1],
        bcn |-> [feeReg |-> 4, feeRec |-> 1, feePur |-> 1, denom |-> "nund", def |-> 2, max |-> 4, startId |-> 1],
        str |-> [feeNum |-> 1, feeDen |-> 10]]

GX(member, msgs) == Tx(<<[t |-> "GExec", member |-> member, msgs |-> msgs]>>)
Prefix == << [a |-> "BeginBlock", dt |-> 1000],
             Tx(<<[t |-> "Raise", pur |-> "A3", amt |-> 7, denom |-> "nund"]>>),
             TxFee(<<[t |-> "WReg", owner |-> "A1", moniker |-> "m", name |-> "n", genesis |-> "g", type |-> "t"]>>, [nund |-> 4]),
             TxFee(<<[t |-> "BReg", owner |-> "A1", moniker |-> "m", name |-> "n"]>>, [nund |-> 4]),
             Tx(<<[t |-> "SCreate", sender |-> "A1", receiver |-> "A2", dep |-> 200, denom |-> "nund", rate |-> 1]>>),
             \* the group policy account as a party: funded, whitelisted, owner of WRKChain 2 and BEACON 2, sender of a stream to A2
             \* and receiver of one from A1 (everything it does goes through a proposal of a member)
             Tx(<<[t |-> "Send", from |-> "A1", to |-> "grp", amt |-> 150, denom |-> "nund"]>>),
             Tx(<<[t |-> "Whitelist", signer |-> "A1", addr |-> "grp", act |-> "add"]>>),
             GX("A1", <<[t |-> "WReg", owner |-> "grp", moniker |-> "mg", name |-> "n", genesis |-> "g", type |-> "t"]>>),
             GX("A2", <<[t |-> "BReg", owner |-> "grp", moniker |-> "mg", name |-> "n"]>>),
             GX("A1", <<[t |-> "SCreate", sender |-> "grp", receiver |-> "A2", dep |-> 100, denom |-> "nund", rate |-> 1]>>),
             Tx(<<[t |-> "SCreate", sender |-> "A1", receiver |-> "grp", dep |-> 100, denom |-> "nund", rate |-> 1]>>),
             EndEv, ComEv, [a |-> "BeginBlock", dt |-> 30000] >>

\* message templates: T[i][1] = message naming x, T[i][2] = exact fee it must carry
Templates(x) == <<
  <<[t |-> "Raise", pur |-> x, amt |-> 3, denom |-> "nund"], 0>>,
  <<[t |-> "Decide", signer |-> x, id |-> 1, d |-> "accept"], 0>>,
  <<[t |-> "Whitelist", signer |-> x, addr |-> "A4", act |-> "add"], 0>>,
  <<[t |-> "WRec", owner |-> x, id |-> 1, h |-> 5, bh |-> "b", ph |-> "", h1 |-> "", h2 |-> "", h3 |-> ""], 1>>,
  <<[t |-> "WBuy", owner |-> x, id |-> 1, n |-> 1], 1>>,
  <<[t |-> "BRec", owner |-> x, id |-> 1, hash |-> "x", subt |-> 7], 1>>,
  <<[t |-> "BBuy", owner |-> x, id |-> 1, n |-> 1], 1>>,
  <<[t |-> "STopUp", sender |-> x, receiver |-> "A2", dep |-> 10, denom |-> "nund"], 0>>,
  <<[t |-> "SRate", sender |-> x, receiver |-> "A2", rate |-> 2], 0>>,
  <<[t |-> "SCancel", sender |-> x, receiver |-> "A2"], 0>>,
  <<[t |-> "SClaim", sender |-> "A1", receiver |-> x], 0>>,
  <<[t |-> "UpdParams", mod |-> "ent", authority |-> x, p |-> [signers |-> <<"A4">>, min |-> 1, limit |-> 9, denom |-> "nund"]], 0>>,
  <<[t |-> "UpdParams", mod |-> "wrk", authority |-> x, p |-> [feeReg |-> 1, feeRec |-> 1, feePur |-> 1, denom |-> "nund", def |-> 1, max |-> 9]], 0>>,
  <<[t |-> "UpdParams", mod |-> "bcn", authority |-> x, p |-> [feeReg |-> 1, feeRec |-> 1, feePur |-> 1, denom |-> "nund", def |-> 1, max |-> 9]], 0>>,
  <<[t |-> "UpdParams", mod |-> "str", authority |-> x, p |-> [feeNum |-> 1, feeDen |-> 2]], 0>> >>

WithFee(m, f) == IF f > 0 THEN TxFee(<<m>>, [nund |-> f]) ELSE Tx(<<m>>)
Alphabet ==
  UNION { UNION { LET T == Templates(x)[i] IN
                  {WithFee(T[1], T[2])}                                                         \* (b) properly signed by the named party
                  \cup { WithFee(T[1], T[2]) @@ [signers |-> <<y>>] : y \in AcctSet \ {x} }      \* (a) signed by somebody else's key only
                  \cup { Tx(<<[t |-> "Exec", grantee |-> y, msgs |-> <<T[1]>>]>>) : y \in AcctSet \ {x} }   \* (c) wrapped by y
                : i \in DOMAIN Templates(x) } : x \in AcctSet }
  \cup { Tx(<<Templates("gov")[i][1]>>) @@ [signers |-> <<y>>] : i \in 12..15, y \in {"A1", "A4"} }

ScriptTail == <<EndEv, ComEv, [a |-> "BeginBlock", dt |-> 1000], EndEv, ComEv>>
\* (d) x grants y a generic authorisation for exactly the message type, then y executes the message naming x;
\* (e) the grant is for ANOTHER type; (f) the grant is revoked before y executes; (g) y executes for x and for
\* itself in one wrapper.  y = the account after x.
NextAcct(x) == CASE x = "A1" -> "A2" [] x = "A2" -> "A3" [] x = "A3" -> "A4" [] OTHER -> "A1"
OtherType(t) == IF t = "Send" THEN "WRec" ELSE "Send"
Grant(x, y, t) == Tx(<<[t |-> "Grant", granter |-> x, grantee |-> y, mt |-> t]>>)
Revoke(x, y, t) == Tx(<<[t |-> "Revoke", granter |-> x, grantee |-> y, mt |-> t]>>)
ExecBy(y, m) == Tx(<<[t |-> "Exec", grantee |-> y, msgs |-> <<m>>]>>)
GrantChoices ==
  UNION { UNION { LET m == Templates(x)[i][1]  y == NextAcct(x) IN
                  { [ev |-> Grant(x, y, m.t), tail |-> <<ExecBy(y, m)>> \o ScriptTail \o <<[a |-> "BeginBlock", dt |-> 1000], ExecBy(y, m), EndEv, ComEv>>],
                    [ev |-> Grant(x, y, OtherType(m.t)), tail |-> <<ExecBy(y, m)>> \o ScriptTail],
                    [ev |-> Grant(x, y, m.t), tail |-> <<Revoke(x, y, m.t), ExecBy(y, m)>> \o ScriptTail],
                    [ev |-> Grant(x, y, m.t), tail |-> <<ExecBy(NextAcct(y), m), Revoke(y, x, m.t)>> \o ScriptTail] }
                : i \in 1..11 } : x \in AcctSet }
\* the governance account as a party of its own: whitelisted by a signer, it raises an order through a proposal, the
\* order is accepted and completed (eFUND minted to and locked for the governance account); also with an ordinary purchaser
GovRaise(amt) == Tx(<< [t |-> "GovProp", proposer |-> "V", msgs |-> << [t |-> "Raise", pur |-> "gov", amt |-> amt, denom |-> "nund"] >>],
                      [t |-> "Vote", voter |-> "V", id |-> st.aux.nextProp] >>)
B1 == <<EndEv, ComEv, [a |-> "BeginBlock", dt |-> 1000]>>
Blocks(n) == IF n = 2 THEN B1 \o B1 ELSE B1 \o B1 \o B1
GovChoices ==
  { [ev |-> Tx(<<[t |-> "Whitelist", signer |-> "A1", addr |-> "gov", act |-> "add"]>>),
     tail |-> <<GovRaise(9)>> \o Blocks(3) \o <<Tx(<<[t |-> "Decide", signer |-> "A1", id |-> 2, d |-> "accept"]>>),
                                                 Tx(<<[t |-> "Decide", signer |-> "A1", id |-> 1, d |-> "accept"]>>)>> \o Blocks(3) \o <<EndEv, ComEv>>],
    [ev |-> GovRaise(9),          \* not whitelisted: the proposal fails when it executes
     tail |-> Blocks(3) \o <<Tx(<<[t |-> "Decide", signer |-> "A1", id |-> 2, d |-> "accept"]>>)>> \o Blocks(2) \o <<EndEv, ComEv>>] }
\* (h) the message names the group policy account and is carried by a proposal of a member (both members), of a stranger
\*     (A3), or signed directly by a member's key; a member's proposal that carries a message naming the member itself
GrpTemplates == <<
  [t |-> "Raise", pur |-> "grp", amt |-> 3, denom |-> "nund"],
  [t |-> "Decide", signer |-> "grp", id |-> 1, d |-> "accept"],
  [t |-> "Whitelist", signer |-> "grp", addr |-> "A4", act |-> "add"],
  [t |-> "WRec", owner |-> "grp", id |-> 2, h |-> 5, bh |-> "b", ph |-> "", h1 |-> "", h2 |-> "", h3 |-> ""],
  [t |-> "WBuy", owner |-> "grp", id |-> 2, n |-> 1],
  [t |-> "BRec", owner |-> "grp", id |-> 2, hash |-> "x", subt |-> 7],
  [t |-> "BBuy", owner |-> "grp", id |-> 2, n |-> 1],
  [t |-> "WRec", owner |-> "grp", id |-> 1, h |-> 5, bh |-> "b", ph |-> "", h1 |-> "", h2 |-> "", h3 |-> ""],      \* A1's WRKChain
  [t |-> "BBuy", owner |-> "grp", id |-> 1, n |-> 1],                                                            \* A1's BEACON
  [t |-> "STopUp", sender |-> "grp", receiver |-> "A2", dep |-> 10, denom |-> "nund"],
  [t |-> "SRate", sender |-> "grp", receiver |-> "A2", rate |-> 2],
  [t |-> "SCancel", sender |-> "grp", receiver |-> "A2"],
  [t |-> "SClaim", sender |-> "A1", receiver |-> "grp"],
  [t |-> "SCancel", sender |-> "grp", receiver |-> "A1"],                                                        \* roles reversed
  [t |-> "Send", from |-> "grp", to |-> "A4", amt |-> 5, denom |-> "nund"] >>
GroupAlphabet ==
  UNION { { GX(y, <<GrpTemplates[i]>>) : y \in {"A1", "A2", "A3"} }
          \cup { Tx(<<GrpTemplates[i]>>) @@ [signers |-> <<"A1">>] } : i \in DOMAIN GrpTemplates }
  \cup { GX("A1", <<Templates("A1")[i][1]>>) : i \in {1, 4, 8, 10} }
  \cup { GX("A2", <<GrpTemplates[10], GrpTemplates[15] @@ [amt |-> 100000]>>) }       \* top-up rolled back with the proposal's second message
Choices == { [ev |-> e, tail |-> ScriptTail] : e \in Alphabet \cup GroupAlphabet } \cup GrantChoices \cup GovChoices
Init == /\ st = StateOf(Gen) /\ hist = <<[a |-> "InitChain", g |-> Gen]>> /\ todo = Prefix /\ phase = "prefix" /\ nTx = 0
Run == /\ todo # <<>>
       /\ st' = Step(st, Head(todo)).st /\ hist' = Append(hist, Head(todo)) /\ todo' = Tail(todo)
       /\ UNCHANGED <<phase, nTx>>
Choose == /\ todo = <<>> /\ phase = "prefix"
          /\ \E c \in Choices :
               st' = Step(st, c.ev).st /\ hist' = Append(hist, c.ev) /\ todo' = c.tail /\ phase' = "tail" /\ nTx' = 1
Done == todo = <<>> /\ phase = "tail" /\ phase' = "done" /\ UNCHANGED <<st, hist, nTx, todo>>
Next == Run \/ Choose \/ Done
Spec == Init /\ [][Next]_vars

Inv == C03State(st) /\ C04State(st) /\ C08State(st) /\ C10State(st) /\ NotHalted(st) /\ StoredParamsValid(st)
\* C13 on the model: a wrongly signed transaction leaves every module's state unchanged
StepProps == [][ hist' # hist => LET ev == hist'[Len(hist')] IN C13Step(st, st', ev) /\ C09Step(st, st', ev) ]_vars
Emit == phase = "done" => PrintT(<<"TRACE", ToJson(hist)>>)
=============================================================================
