SPECIFICATION KVSpec
CONSTANTS
  W = 1
  Bytes = {0}
  MaxAddrLen = 1
  PairModules = {}
  MaxLen = 3
INVARIANT KVStateInv
INVARIANT Emit
PROPERTY KVStepProps
CHECK_DEADLOCK FALSE
