\* exploration that starts from two registrations per module (two owners): what concerns one must not touch the other
SPECIFICATION Spec
CONSTANTS
  Pre <- PreTwo
  FailingGov = FALSE
  MaxHeight = 4
  MaxTx = 2
  MaxFail = 1
  MaxReg = 2
  MaxRec = 6
  GenCap <- SmallCap
  Presets <- PresetsQuick
VIEW View
INVARIANT Inv
PROPERTY StepProps
PROPERTY GoalEmit
CHECK_DEADLOCK FALSE
