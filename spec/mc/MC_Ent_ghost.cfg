\* rolled-back governance proposals: raise / failing proposal / decisions, then the tally
SPECIFICATION Spec
CONSTANTS
  FailingGov = TRUE
  MaxHeight = 5
  MaxTx = 3
  MaxPo = 1
  MaxFail = 1
  Presets <- PresetsQuick
VIEW View
INVARIANT Inv
PROPERTY StepProps
PROPERTY GoalEmit
CHECK_DEADLOCK FALSE
