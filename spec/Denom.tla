-------------------------------- MODULE Denom --------------------------------
(* C19: FUND <-> nund denomination conversion as EXACT decimal-string         *)
(* arithmetic (DESIGN 7, C19).                                                *)
(*                                                                            *)
(* A non-negative decimal is a pair of digit sequences                        *)
(*      [int |-> <<d1, ..., dn>>, frac |-> <<e1, ..., em>>]    (di, ei in 0..9) *)
(* standing for d1...dn.e1...em .  1 FUND = 10^9 nund, so both conversions    *)
(* are pure shifts of the decimal point by Places = 9 positions.  Everything  *)
(* below is digit-sequence manipulation: the only numbers ever computed are   *)
(* single digits and sequence lengths (< 50), so the 32-bit integers of TLC   *)
(* play no role (the arithmetic anchor ArithAgree is guarded to small values).*)
EXTENDS Integers, Sequences, FiniteSets, TLC

Places == 9                      \* 1 FUND = 10^Places nund
Digit == 0..9

------------------------------------------------------------------------------
(* digit sequences *)
IsDigits(s) == /\ DOMAIN s = 1..Len(s)
               /\ \A i \in 1..Len(s) : s[i] \in Digit

Zeros(k) == [i \in 1..k |-> 0]

AllZero(s) == \A i \in 1..Len(s) : s[i] = 0

Max2(a, b) == IF a >= b THEN a ELSE b

\* number of leading / trailing zeros
RECURSIVE LeadZ(_)
LeadZ(s) == IF s = <<>> \/ s[1] # 0 THEN 0 ELSE 1 + LeadZ(Tail(s))
RECURSIVE TrailZ(_)
TrailZ(s) == IF s = <<>> \/ s[Len(s)] # 0 THEN 0 ELSE 1 + TrailZ(SubSeq(s, 1, Len(s) - 1))

StripLead(s)  == SubSeq(s, LeadZ(s) + 1, Len(s))             \* may be <<>>
StripTrail(s) == SubSeq(s, 1, Len(s) - TrailZ(s))            \* may be <<>>

\* canonical integer digit sequence: no leading zeros, <<0>> for zero
IntCanon(s) == IF StripLead(s) = <<>> THEN <<0>> ELSE StripLead(s)

PadRight(s, k) == s \o Zeros(Max2(0, k - Len(s)))
PadLeft(s, k)  == Zeros(Max2(0, k - Len(s))) \o s

------------------------------------------------------------------------------
(* decimals *)
IsDecimal(x) == /\ DOMAIN x = {"int", "frac"}
                /\ IsDigits(x.int) /\ IsDigits(x.frac)

Dec(i, f) == [int |-> i, frac |-> f]

\* same value, canonical form: integer part without leading zeros (at least "0"),
\* fractional part without trailing zeros
Normalise(x) == Dec(IntCanon(x.int), StripTrail(x.frac))

\* same value, fractional part padded to k digits (for Len(x.frac) <= k)
PadFrac(x, k) == Dec(x.int, PadRight(x.frac, k))

SameValue(x, y) == Normalise(x) = Normalise(y)

IsZero(x) == AllZero(x.int) /\ AllZero(x.frac)

\* number of significant digits of the input as written (leading integer zeros do not count)
SigDigits(x) == Len(StripLead(x.int \o x.frac))

------------------------------------------------------------------------------
(* the conversions, for a shift of k places; the property speaks about k = Places *)

\* FUND -> nund: move the point k places to the right.  Defined for at most k fractional digits
\* (a finer amount is not a whole number of nund).  Result: an integer digit sequence.
CanToNundK(x, k) == Len(x.frac) <= k
ToNundK(x, k)    == IntCanon(x.int \o PadRight(x.frac, k))

\* nund -> FUND: n is an integer digit sequence; move the point k places to the left and print
\* exactly k fractional digits, integer part without leading zeros but at least "0".
ToFundK(n, k) ==
  LET p == PadLeft(n, k + 1)
  IN Dec(IntCanon(SubSeq(p, 1, Len(p) - k)), SubSeq(p, Len(p) - k + 1, Len(p)))

CanToNund(x) == CanToNundK(x, Places)
ToNund(x)    == ToNundK(x, Places)
ToFund(n)    == ToFundK(n, Places)

------------------------------------------------------------------------------
(* an independent, one-place-at-a-time description of the point shift *)
ShiftR1(x) == IF x.frac = <<>> THEN Dec(Append(x.int, 0), <<>>)
              ELSE Dec(Append(x.int, Head(x.frac)), Tail(x.frac))
ShiftL1(x) == IF x.int = <<>> THEN Dec(<<>>, <<0>> \o x.frac)
              ELSE Dec(SubSeq(x.int, 1, Len(x.int) - 1), <<x.int[Len(x.int)]>> \o x.frac)
RECURSIVE ShiftR(_, _)
ShiftR(x, k) == IF k = 0 THEN x ELSE ShiftR(ShiftR1(x), k - 1)
RECURSIVE ShiftL(_, _)
ShiftL(x, k) == IF k = 0 THEN x ELSE ShiftL(ShiftL1(x), k - 1)

\* occurrences of digit d in s
RECURSIVE Count(_, _)
Count(d, s) == IF s = <<>> THEN 0 ELSE (IF Head(s) = d THEN 1 ELSE 0) + Count(d, Tail(s))

------------------------------------------------------------------------------
(* PROPERTIES (checked by TLC in mc/MC_Denom.tla for every explored input x) *)

\* results are well-formed: nund is a canonical integer; FUND has exactly k decimals and a
\* canonical integer part
WFNund(n)     == IsDigits(n) /\ Len(n) >= 1 /\ (Len(n) > 1 => n[1] # 0)
WFFundK(y, k) == IsDecimal(y) /\ WFNund(y.int) /\ Len(y.frac) = k
WellFormedK(x, k) ==
  CanToNundK(x, k) => /\ WFNund(ToNundK(x, k))
                      /\ WFFundK(ToFundK(ToNundK(x, k), k), k)
                      /\ WFFundK(ToFundK(IntCanon(x.int \o x.frac), k), k)

\* there and back: the original amount, printed canonically with k decimals
RoundTripK(x, k) ==
  CanToNundK(x, k) => ToFundK(ToNundK(x, k), k) = PadFrac(Normalise(x), k)
\* back and there: for an integer digit sequence n
RoundTripNundK(n, k) == ToNundK(ToFundK(n, k), k) = IntCanon(n)

\* ToNund is a pure point shift: (1) it equals k single-place shifts; (2) the non-zero digits
\* are preserved with multiplicity and exactly the zeros needed for padding are added/dropped;
\* (3) the significant digit string is preserved; (4) shifting back k places gives the same value
PointShiftK(x, k) ==
  CanToNundK(x, k) =>
    LET n == ToNundK(x, k)
        s == ShiftR(x, k)
    IN /\ AllZero(s.frac) /\ IntCanon(s.int) = n
       /\ \A d \in 1..9 : Count(d, n) = Count(d, x.int \o x.frac)
       /\ StripTrail(StripLead(n)) = StripTrail(StripLead(x.int \o x.frac))
       /\ (~IsZero(x) => Len(n) = Len(StripLead(x.int \o PadRight(x.frac, k))))
       /\ SameValue(ShiftL(Dec(n, <<>>), k), x)
       /\ ToFundK(n, k) = PadFrac(Normalise(ShiftL(Dec(n, <<>>), k)), k)

\* conversions depend on the value only, not on how it is written
RepresentationIndependentK(x, k) ==
  CanToNundK(x, k) => /\ ToNundK(Normalise(x), k) = ToNundK(x, k)
                      /\ ToNundK(Dec(<<0>> \o x.int, x.frac), k) = ToNundK(x, k)
                      /\ (Len(x.frac) < k => ToNundK(Dec(x.int, Append(x.frac, 0)), k) = ToNundK(x, k))

\* anchor to integer arithmetic where the numbers fit TLC's integers (at most 9 digits)
RECURSIVE Val(_)
Val(s) == IF s = <<>> THEN 0 ELSE 10 * Val(SubSeq(s, 1, Len(s) - 1)) + s[Len(s)]
RECURSIVE Pow10(_)
Pow10(k) == IF k = 0 THEN 1 ELSE 10 * Pow10(k - 1)
ArithAgreeK(x, k) ==
  (CanToNundK(x, k) /\ Len(StripLead(x.int)) + k <= 9) =>
     /\ Val(ToNundK(x, k)) = Val(StripLead(x.int)) * Pow10(k) + Val(PadRight(x.frac, k))
     /\ LET y == ToFundK(ToNundK(x, k), k)
        IN Val(y.int) * Pow10(k) + Val(y.frac) = Val(ToNundK(x, k))

RoundTrip(x)     == RoundTripK(x, Places)
RoundTripNund(n) == RoundTripNundK(n, Places)
WellFormed(x)    == WellFormedK(x, Places)
PointShift(x)    == PointShiftK(x, Places)
RepresentationIndependent(x) == RepresentationIndependentK(x, Places)
ArithAgree(x)    == ArithAgreeK(x, Places) /\ ArithAgreeK(x, 2) /\ ArithAgreeK(x, 3)

\* everything C19 says about the ideal conversion of input x
DenomProps(x) ==
  /\ IsDecimal(x)
  /\ WellFormed(x) /\ RoundTrip(x) /\ PointShift(x) /\ RepresentationIndependent(x) /\ ArithAgree(x)
  /\ RoundTripNund(x.int \o x.frac) /\ RoundTripNund(ToNund(x))
  \* the same laws for other shifts (the definitions are not accidentally right for 9 only)
  /\ \A k \in {0, 1, 2} : (WellFormedK(x, k) /\ RoundTripK(x, k) /\ PointShiftK(x, k))

------------------------------------------------------------------------------
(* rendering: the strings the conversion command reads and prints *)
DigitStr == <<"0", "1", "2", "3", "4", "5", "6", "7", "8", "9">>
RECURSIVE Str(_)
Str(s) == IF s = <<>> THEN "" ELSE DigitStr[Head(s) + 1] \o Str(Tail(s))

\* a decimal as written: "12", "12.5", "0.000000001"
DecStr(x) == IF x.frac = <<>> THEN Str(x.int) ELSE Str(x.int) \o "." \o Str(x.frac)

\* expected OUTPUT strings (without the denomination suffix)
NundStr(x)      == Str(ToNund(x))                 \* fund -> nund
FundStr(n)      == DecStr(ToFund(n))              \* nund -> fund, n an integer digit sequence
BackStr(x)      == DecStr(PadFrac(Normalise(x), Places))   \* fund -> nund -> fund
=============================================================================
