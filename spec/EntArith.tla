------------------------------- MODULE EntArith -------------------------------
(* The arithmetic of the locked-eFUND books over the unbounded integers       *)
(* (C02, C04, C05): how much of a fee is taken from a payer's locked eFUND.   *)
(* Enterprise.tla (TLC, small amounts) builds UnlockForFees from UnlockTake;  *)
(* mc/LedgerInductive.tla (Apalache, all integers) proves that the books      *)
(* balance after every operation.  Plain TLA+ (no recursion, no sets).        *)
EXTENDS Integers

\* what leaves the escrow account when a payer with `locked` locked and `spendable` liquid coins owes the fee f:
\* the whole fee if the locked coins cover it, all locked coins if locked + liquid cover it, otherwise nothing
UnlockTake(locked, spendable, f) ==
  IF locked >= f THEN f ELSE IF spendable + locked >= f THEN locked ELSE 0

\* the running totals are floored at zero by the code; under the books invariant the floor never applies
Floor0(x) == IF x >= 0 THEN x ELSE 0
=============================================================================
