------------------------------- MODULE Stream -------------------------------
(* x/stream: payment streams keyed by (receiver, sender).  Times are model   *)
(* milliseconds; rates are coins per whole second.                           *)
(*                                                                           *)
(* st.str = [p: [feeNum, feeDen], s: ["R/S" -> [dep, den, rate, last, dzt,   *)
(*           canc]]]                                                         *)
(* Multi-step handlers are compositions of the same sub-operators, in the    *)
(* code's order: Create = CreateNew ; AddDeposit,  TopUp = settle-if-expired *)
(* ; deposit,  UpdateFlowRate = settle ; recompute,  Cancel = settle ;       *)
(* refund ; delete.                                                          *)
EXTENDS Registry, StreamArith

SKey(r, s) == r \o "/" \o s
HasStream(st, r, s) == SKey(r, s) \in DOMAIN st.str.s
StreamOf(st, r, s) == st.str.s[SKey(r, s)]
SetStream(st, r, s, x) == [st EXCEPT !.str.s = Upd(@, SKey(r, s), x)]
DelStream(st, r, s) == [st EXCEPT !.str.s = Del(@, SKey(r, s))]

\* per-stream history counters (observation variable): deposited, paid to receiver, validator fees, refunded
Hist0 == [in |-> 0, paid |-> 0, fees |-> 0, ref |-> 0]
HistOf(st, r, s) == IF SKey(r, s) \in DOMAIN st.aux.sh THEN st.aux.sh[SKey(r, s)] ELSE Hist0
Bump(st, r, s, f, n) == [st EXCEPT !.aux.sh = Upd(@, SKey(r, s), [HistOf(st, r, s) EXCEPT ![f] = @ + n])]

Epoch == -2000000000     \* "set to past" marker of a stream that has no deposit yet

\* the arithmetic itself lives in StreamArith.tla (shared with the Apalache judge of the big-number recordings)
MsPerSec == 1000
Duration(dep, rate) == IDuration(dep, rate)

(* CalculateAmountToClaim *)
ClaimCalc(x, now) ==
  LET c == IRelease(now, x.dzt, x.last, x.dep, x.rate, MsPerSec) IN [claim |-> c, rem |-> x.dep - c]

(* CalculateValidatorFee: floor(claim x rate) *)
ValFee(st, claim) == IFee(claim, st.str.p.feeNum, st.str.p.feeDen)

(* ClaimFromStream *)
ClaimFrom(st, r, s) ==
  IF ~HasStream(st, r, s) THEN Fail(st)
  ELSE LET x == StreamOf(st, r, s) IN
  IF x.dep <= 0 THEN Fail(st)
  ELSE LET c   == ClaimCalc(x, st.time)
           fee == ValFee(st, c.claim)
           pay == c.claim - fee
           s1  == IF fee > 0 THEN Move(st, "stream", "fees", x.den, fee) ELSE st
           s2  == IF pay > 0 THEN Move(s1, "stream", r, x.den, pay) ELSE s1
       IN IF pay > 0 /\ r \in Blocked THEN Fail(st)
          ELSE OkOut(Bump(Bump(SetStream(s2, r, s, [x EXCEPT !.dep = c.rem, !.last = st.time]), r, s, "paid", pay), r, s, "fees", fee),
                     [total |-> c.claim, pay |-> pay, fee |-> fee, rem |-> c.rem])

(* AddDeposit.  A stream that is refunded after it ran dry starts a new      *)
(* funding period: its release clock restarts at the top-up (C11: the        *)
(* deposit must sustain the flow from the last release to the zero time).    *)
AddDeposit(st, r, s, amt, den) ==
  IF ~HasStream(st, r, s) THEN Fail(st)
  ELSE LET x0 == StreamOf(st, r, s) IN
  IF den # x0.den THEN Fail(st)
  ELSE LET expired == x0.dzt <= st.time
           c  == IF expired /\ x0.dep > 0 THEN ClaimFrom(st, r, s) ELSE Ok(st)
       IN IF ~c.ok THEN Fail(st)
          ELSE LET s1 == c.st
                   x  == StreamOf(s1, r, s)
                   ext == Duration(amt, x.rate) * 1000
                   dzt == IF expired THEN st.time + ext ELSE x.dzt + ext
                   last == IF expired THEN st.time ELSE x.last
               IN IF Spendable(s1, s, den) < amt THEN Fail(st)
                  ELSE Ok(Bump(SetStream(Move(s1, s, "stream", den, amt), r, s,
                                    [x EXCEPT !.dep = @ + amt, !.dzt = dzt, !.last = last]), r, s, "in", amt))

CreateBasicOk(m) == m.dep > 0 /\ m.rate >= 1 /\ m.sender # m.receiver /\ Duration(m.dep, m.rate) >= 60
Create(st, m) ==
  IF ~CreateBasicOk(m) THEN Fail(st)
  ELSE IF m.receiver \in Blocked \/ HasStream(st, m.receiver, m.sender) THEN Fail(st)
  ELSE LET s1 == SetStream(st, m.receiver, m.sender,
                    [dep |-> 0, den |-> m.denom, rate |-> m.rate, last |-> st.time, dzt |-> Epoch, canc |-> TRUE])
           a == AddDeposit(s1, m.receiver, m.sender, m.dep, m.denom)
       IN IF a.ok THEN Ok(a.st) ELSE Fail(st)

Claim(st, m) == LET c == ClaimFrom(st, m.receiver, m.sender) IN IF c.ok THEN c ELSE Fail(st)

TopUp(st, m) ==
  IF m.dep <= 0 \/ ~HasStream(st, m.receiver, m.sender) THEN Fail(st)
  ELSE LET a == AddDeposit(st, m.receiver, m.sender, m.dep, m.denom) IN
       IF ~a.ok THEN Fail(st)
       ELSE OkOut(a.st, [cur |-> StreamOf(a.st, m.receiver, m.sender).dep, dzt |-> StreamOf(a.st, m.receiver, m.sender).dzt])

UpdateRate(st, m) ==
  IF m.rate < 1 \/ ~HasStream(st, m.receiver, m.sender) THEN Fail(st)
  ELSE LET x0 == StreamOf(st, m.receiver, m.sender)
           c  == IF x0.dep > 0 THEN ClaimFrom(st, m.receiver, m.sender) ELSE Ok(st)
       IN IF ~c.ok THEN Fail(st)
          ELSE LET x == StreamOf(c.st, m.receiver, m.sender)
                   dzt == IF x0.dep > 0 THEN st.time + Duration(x.dep, m.rate) * 1000 ELSE st.time
               IN Ok(SetStream(c.st, m.receiver, m.sender, [x EXCEPT !.rate = m.rate, !.dzt = dzt]))

Cancel(st, m) ==
  IF ~HasStream(st, m.receiver, m.sender) THEN Fail(st)
  ELSE LET x0 == StreamOf(st, m.receiver, m.sender) IN
  IF ~x0.canc THEN Fail(st)
  ELSE LET c == IF x0.dep > 0 THEN ClaimFrom(st, m.receiver, m.sender) ELSE Ok(st) IN
       IF ~c.ok THEN Fail(st)
       ELSE LET x == StreamOf(c.st, m.receiver, m.sender)
                s1 == IF x.dep > 0 THEN Move(c.st, "stream", m.sender, x.den, x.dep) ELSE c.st
            IN Ok(Bump(DelStream(s1, m.receiver, m.sender), m.receiver, m.sender, "ref", x.dep))

------------------------------------------------------------------------------
StrParamsValid(p) == p.feeDen > 0 /\ p.feeNum >= 0 /\ p.feeNum <= p.feeDen     \* feeDen = 0 encodes a nil decimal
SetStrParams(st, p) == IF StrParamsValid(p) THEN Ok([st EXCEPT !.str.p = p]) ELSE Fail(st)

------------------------------------------------------------------------------
(* State predicates of C10/C11 *)
DepositSum(st, d) == SumOver([k \in DOMAIN st.str.s |-> IF st.str.s[k].den = d THEN st.str.s[k].dep ELSE 0], DOMAIN st.str.s)
EscrowBacked(st) == \A d \in Denoms : BalOf(st, "stream", d) = DepositSum(st, d)
Conserved(st) == \A k \in DOMAIN st.aux.sh :
   LET h == st.aux.sh[k] IN h.in = h.paid + h.fees + h.ref + (IF k \in DOMAIN st.str.s THEN st.str.s[k].dep ELSE 0)
\* never stranded: a funded stream can always be claimed and cancelled (outcomes of the total operators)
NotStranded(st) == \A k \in DOMAIN st.str.s : st.str.s[k].dep > 0 =>
   \E r, s \in DOMAIN st.ent.locked : k = SKey(r, s) /\ ClaimFrom(st, r, s).ok
      /\ Cancel(st, [receiver |-> r, sender |-> s]).ok
Sustained(st) == \A k \in DOMAIN st.str.s : LET x == st.str.s[k] IN
                   x.dep > 0 /\ x.dzt > x.last => x.dep * 1000 >= x.rate * (x.dzt - x.last)
=============================================================================
