------------------------------ MODULE Prelude ------------------------------
(* Helpers shared by every module of the mainchain specification.           *)
(* The abstract state is one JSON-isomorphic record `st` (DESIGN 3.2);      *)
(* every operation is an operator Op(st, args) returning a result record    *)
(* [ok, panic, st, out].                                                     *)
EXTENDS Integers, Sequences, FiniteSets, TLC

Min(a, b) == IF a <= b THEN a ELSE b
Max(a, b) == IF a >= b THEN a ELSE b

Range(s) == { s[i] : i \in DOMAIN s }
Contains(s, e) == \E i \in DOMAIN s : s[i] = e
SeqRemove(s, e) == SelectSeq(s, LAMBDA x : x # e)
Last(s) == s[Len(s)]

\* function/record update that may extend the domain
Upd(f, k, v) == [x \in (DOMAIN f) \cup {k} |-> IF x = k THEN v ELSE f[x]]
Del(f, k)    == [x \in (DOMAIN f) \ {k} |-> f[x]]
Has(f, k)    == k \in DOMAIN f

RECURSIVE SumOver(_, _)
SumOver(f, S) == IF S = {} THEN 0
                 ELSE LET x == CHOOSE y \in S : TRUE IN f[x] + SumOver(f, S \ {x})
SumFn(f) == SumOver(f, DOMAIN f)

RECURSIVE SeqSum(_)
SeqSum(s) == IF s = <<>> THEN 0 ELSE Head(s) + SeqSum(Tail(s))

\* fold over a sequence, left to right: Op(elem, acc).  Index-based and with TLCEval so that TLC
\* neither builds a chain of lazy thunks nor re-evaluates the tail at every level.
RECURSIVE FoldIdx(_, _, _, _)
FoldIdx(Op(_, _), acc, s, i) == IF i > Len(s) THEN acc ELSE FoldIdx(Op, TLCEval(Op(s[i], acc)), s, TLCEval(i + 1))
FoldL(Op(_, _), acc, s) == LET sv == TLCEval(s) IN FoldIdx(Op, acc, sv, 1)

\* ascending sequence of a finite set of integers
RECURSIVE SortedSeq(_)
SortedSeq(S) == IF S = {} THEN <<>>
                ELSE LET m == CHOOSE x \in S : \A y \in S : x <= y
                     IN <<m>> \o SortedSeq(S \ {m})

RECURSIVE SetToSeq(_)
SetToSeq(S) == IF S = {} THEN <<>> ELSE LET x == CHOOSE y \in S : TRUE IN <<x>> \o SetToSeq(S \ {x})

\* result records
Ok(st)        == [ok |-> TRUE,  panic |-> FALSE, st |-> st, out |-> <<>>]
OkOut(st, o)  == [ok |-> TRUE,  panic |-> FALSE, st |-> st, out |-> o]
Fail(st)      == [ok |-> FALSE, panic |-> FALSE, st |-> st, out |-> <<>>]
Panic(st)     == [ok |-> FALSE, panic |-> TRUE,  st |-> st, out |-> <<>>]

\* optional field access on JSON records
Get(r, k, dflt) == IF k \in DOMAIN r THEN r[k] ELSE dflt

NowSec(st) == st.time \div 1000
=============================================================================
