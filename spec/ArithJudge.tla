----------------------------- MODULE ArithJudge -----------------------------
(* Trace validation of the big-number recordings of harness `arith` with     *)
(* Apalache (true integers).  ArithVectors.tla is GENERATED from a recording:*)
(* N and Vec(k), one record per recorded step: the stream observed before    *)
(* the step, the operation, the block time, what the code answered, the      *)
(* stream observed after it and what each party gained.  Verdict(v) judges   *)
(* the step against StreamArith.tla from the OBSERVED pre-state (the same    *)
(* refinement rule as Trace.tla).  The state variable vs holds the verdict   *)
(* of every vector, so one counterexample of AllOk reports all of them.      *)
EXTENDS Integers, Sequences, StreamArith

\* @typeAlias: vec = {op: Str, amt: Int, rate: Int, now: Int, num: Int, den: Int, funds: Int, pre: $stream, post: $stream, ok: Bool, panic: Bool, gainReceiver: Int, gainFees: Int, gainSender: Int, gainEscrow: Int};
ArithJudgeAliases == TRUE

Unit == 1000000000
\* Go / protobuf timestamps end with year 9999: seconds from the scenario epoch (2023-11-14T22:13:20Z) to 9999-12-31T23:59:59Z
LastTick == 251702300799 * Unit

\* @type: ($vec) => $ares;
Expected(v) ==
  CASE v.op = "create" -> ACreate(v.amt, v.rate, v.now, Unit, v.funds)
    [] v.op = "claim"  -> AClaim(v.pre, v.now, Unit, v.num, v.den)
    [] v.op = "topup"  -> ATopUp(v.pre, v.amt, v.now, Unit, v.num, v.den, v.funds)
    [] v.op = "rate"   -> ARate(v.pre, v.rate, v.now, Unit, v.num, v.den)
    [] OTHER           -> ACancel(v.pre, v.now, Unit, v.num, v.den)

\* what the sender got back: its balance change without the deposit it paid in
\* @type: ($vec) => Int;
ObsRefund(v) == v.gainSender + (IF v.ok /\ v.op \in {"create", "topup"} THEN v.amt ELSE 0)

\* @type: ($vec) => Str;
Verdict(v) ==
  LET e == Expected(v) IN
  IF ~e.ok THEN (IF v.ok THEN "AcceptedAgainstSpec" ELSE "ok")
  ELSE IF ~v.ok THEN (IF e.x.live /\ e.x.dzt > LastTick THEN "ok-unrepresentable-zero-time-refused"
                      ELSE IF v.panic THEN "Panicked" ELSE "Refused")
  ELSE IF v.gainReceiver # e.pay \/ v.gainFees # e.fee \/ ObsRefund(v) # e.ref \/ v.post.dep # e.x.dep THEN "WrongRelease"
  ELSE IF v.gainEscrow # v.post.dep - v.pre.dep THEN "EscrowMismatch"
  ELSE IF v.post.live # e.x.live THEN "WrongLiveness"
  ELSE IF e.x.live /\ (v.post.last # e.x.last \/ v.post.rate # e.x.rate) THEN "WrongClock"
  ELSE IF e.x.live /\ v.post.dzt # e.x.dzt THEN "WrongZeroTime"
  ELSE IF ~ASustained(v.post, Unit) THEN "NotSustained"
  ELSE "ok"

GoodVerdicts == {"ok", "ok-unrepresentable-zero-time-refused"}
=============================================================================
