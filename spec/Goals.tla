-------------------------------- MODULE Goals --------------------------------
(* Coverage goals: labels for the rare situations of one step s --ev--> t of *)
(* the specification (conjunctions of conditions that a random walk seldom   *)
(* produces and that a bounded exhaustive exploration visits as a matter of  *)
(* course).  The bounded models (mc/MC_*.tla) evaluate Marks on EVERY        *)
(* transition TLC explores (action property GoalEmit) and print the shortest *)
(* behaviours that exercise each label; bin/check replays them, followed by  *)
(* a module-specific tail, on the real application, and Trace.tla judges     *)
(* every step as usual.  The labels are goals for schedule GENERATION only:  *)
(* nothing here is an oracle.                                                *)
EXTENDS Props, Json

Acc(o) == NumDec(o, "accepted")
Rej(o) == NumDec(o, "rejected")
RaisedIdx(s) == { i \in DOMAIN s.ent.po : s.ent.po[i].st = "raised" }
AcceptedIdx(s) == { i \in DOMAIN s.ent.po : s.ent.po[i].st = "accepted" }
FormerDecider(s, o) == \E j \in DOMAIN o.dec : ~Contains(s.ent.p.signers, o.dec[j].s)
OthersLocked(s, a) == \E b \in DOMAIN s.ent.locked : b # a /\ s.ent.locked[b] > 0

If(c, l) == IF c THEN {l} ELSE {}

------------------------------------------------------------------------------
(* BeginBlock: the enterprise begin-blocker (parameters of s, time of t) *)
BeginMarks(s, t) ==
  LET P == s.ent.p
      R == RaisedIdx(s)
      A == AcceptedIdx(s)
      Stale(o) == NowSec(t) - o.rt >= P.limit
  IN If(\E i \in R : Rej(s.ent.po[i]) > Len(P.signers) - P.min /\ Acc(s.ent.po[i]) >= P.min, "tally:contested")
     \cup If(\E i \in R : Stale(s.ent.po[i]) /\ Acc(s.ent.po[i]) >= P.min, "tally:stale+quorum")
     \cup If(\E i \in R : Stale(s.ent.po[i]) /\ Acc(s.ent.po[i]) < P.min /\ Acc(s.ent.po[i]) > 0, "tally:stale+some-accepts")
     \cup If(\E i \in R : Stale(s.ent.po[i]) /\ Rej(s.ent.po[i]) > Len(P.signers) - P.min, "tally:stale+rejected")
     \cup If(\E i \in R : Stale(s.ent.po[i]) /\ s.ent.po[i].dec = <<>>, "tally:stale+no-decisions")
     \cup If(\E i \in R : FormerDecider(s, s.ent.po[i]) /\ t.ent.po[i].st = "accepted", "tally:accepted-with-former-signer-decision")
     \cup If(\E i \in R : FormerDecider(s, s.ent.po[i]) /\ t.ent.po[i].st = "rejected", "tally:rejected-with-former-signer-decision")
     \cup If(\E i \in R : FormerDecider(s, s.ent.po[i]) /\ t.ent.po[i].st = "raised", "tally:open-with-former-signer-decision")
     \cup If(\E i \in R : Acc(s.ent.po[i]) + Rej(s.ent.po[i]) > Len(P.signers), "tally:more-decisions-than-signers")
     \cup If(Cardinality({ i \in R : t.ent.po[i].st # "raised" }) >= 2, "tally:two-closed")
     \cup If(Cardinality(A) >= 2, "complete:two")
     \cup If(\E i, j \in A : i # j /\ s.ent.po[i].pur = s.ent.po[j].pur, "complete:two-same-purchaser")
     \cup If(A # {} /\ \E i \in R : t.ent.po[i].st = "accepted", "complete+accept-same-block")
     \cup If(\E i \in A : s.ent.locked[s.ent.po[i].pur] > 0, "complete:on-top-of-locked")
     \cup If(\E i \in A : s.ent.spent[s.ent.po[i].pur] > 0, "complete:after-spending")
     \cup If(\E i \in A : s.ent.po[i].pur \in DOMAIN s.vest, "complete:vesting-purchaser")
     \cup If(\E i \in A : ~s.ent.wl[s.ent.po[i].pur], "complete:purchaser-delisted")

------------------------------------------------------------------------------
(* DeliverTx *)
MsgsOf(ev) == Flatten(ev.msgs)
HasMsg(ev, T) == \E j \in DOMAIN MsgsOf(ev) : MsgsOf(ev)[j].t \in T
AnyMsg(ev, P(_)) == \E j \in DOMAIN MsgsOf(ev) : P(MsgsOf(ev)[j])

EntTxMarks(s, ev, t, ok) ==
     If(AnyMsg(ev, LAMBDA m : m.t = "Decide" /\ ~IsSigner(s, m.signer) /\ PoExists(s, m.id) /\ PoOf(s, m.id).st = "raised"
                               /\ \E i \in DOMAIN s.ent.po : \E j \in DOMAIN s.ent.po[i].dec : s.ent.po[i].dec[j].s = m.signer),
        "decide:by-former-signer")
  \cup If(AnyMsg(ev, LAMBDA m : m.t = "Decide" /\ PoExists(s, m.id) /\ PoOf(s, m.id).st = "raised" /\ IsSigner(s, m.signer)
                               /\ (\E j \in DOMAIN PoOf(s, m.id).dec : PoOf(s, m.id).dec[j].s = m.signer)
                               /\ PoOf(s, m.id).dec[Len(PoOf(s, m.id).dec)].s # m.signer), "decide:twice-after-another-signer-decided")
  \cup If(AnyMsg(ev, LAMBDA m : m.t = "Decide" /\ "enc" \in DOMAIN m /\ PoExists(s, m.id) /\ PoOf(s, m.id).st = "raised" /\ IsSigner(s, m.signer)
                               /\ \E j \in DOMAIN PoOf(s, m.id).dec : PoOf(s, m.id).dec[j].s = m.signer), "decide:twice-in-another-spelling-of-the-address")
  \cup If(ok /\ AnyMsg(ev, LAMBDA m : m.t = "Decide" /\ "enc" \in DOMAIN m), "decide:first-in-upper-case-spelling")
  \cup If(ok /\ AnyMsg(ev, LAMBDA m : m.t = "Decide" /\ PoExists(s, m.id) /\ FormerDecider(s, PoOf(s, m.id))), "decide:after-signer-change")
  \cup If(AnyMsg(ev, LAMBDA m : m.t = "Decide" /\ PoExists(s, m.id) /\ PoOf(s, m.id).st = "raised"
                               /\ \E j \in DOMAIN PoOf(s, m.id).dec : PoOf(s, m.id).dec[j].s = m.signer), "decide:twice")
  \cup If(AnyMsg(ev, LAMBDA m : m.t = "Decide" /\ m.signer \in s.aux.exsig /\ PoExists(s, m.id) /\ PoOf(s, m.id).st = "raised"
                               /\ ~\E j \in DOMAIN PoOf(s, m.id).dec : PoOf(s, m.id).dec[j].s = m.signer), "decide:by-removed-signer")
  \cup If(AnyMsg(ev, LAMBDA m : m.t = "Whitelist" /\ m.signer \in s.aux.exsig /\ m.addr \in DOMAIN s.ent.wl
                               /\ (m.act = "add") = ~s.ent.wl[m.addr]), "whitelist:by-removed-signer")
  \cup If(ok /\ AnyMsg(ev, LAMBDA m : m.t \in {"Decide", "Whitelist"} /\ ~Contains(s.ent.p.signers, m.signer)), "ent:accepted-from-non-signer")
  \cup UNION { If(AnyMsg(ev, LAMBDA m : m.t = "Decide" /\ PoExists(s, m.id) /\ PoOf(s, m.id).st = x /\ IsSigner(s, m.signer)
                                       /\ ~\E j \in DOMAIN PoOf(s, m.id).dec : PoOf(s, m.id).dec[j].s = m.signer), "decide:on-" \o x)
               : x \in {"accepted", "rejected", "completed"} }
  \cup If(AnyMsg(ev, LAMBDA m : m.t = "Raise" /\ m.pur \in DOMAIN s.ent.wl /\ ~s.ent.wl[m.pur]
                               /\ \E i \in DOMAIN s.ent.po : s.ent.po[i].pur = m.pur), "raise:after-delisting")
  \cup If(ok /\ AnyMsg(ev, LAMBDA m : m.t = "Whitelist" /\ m.act = "remove" /\ \E i \in RaisedIdx(s) \cup AcceptedIdx(s) : s.ent.po[i].pur = m.addr),
          "whitelist:remove-with-open-order")
  \cup If(ok /\ HasMsg(ev, {"GovProp"}) /\ RaisedIdx(s) # {}, "gov:proposal-with-raised-order")

FeeTxMarks(s, ev, t, ok) ==
  LET tx == TxOf(ev)
      p  == tx.payer
      d  == s.ent.p.denom
      f  == FeeOf(tx.fee, d)
      known == p \in DOMAIN s.ent.locked
      lk == IF known THEN s.ent.locked[p] ELSE 0
      reg == IsAnyRegistryTx(tx.msgs)
      unlocked == known /\ t.ent.spent[p] > s.ent.spent[p]
  IN If(reg /\ lk > 0 /\ lk < f /\ unlocked /\ OthersLocked(s, p), "unlock:partial+others-locked")
     \cup If(reg /\ lk > 0 /\ lk < f /\ unlocked /\ ~OthersLocked(s, p), "unlock:partial-alone")
     \cup If(reg /\ lk > f /\ f > 0 /\ unlocked /\ OthersLocked(s, p), "unlock:part-of-locked+others-locked")
     \cup If(reg /\ lk = f /\ f > 0 /\ unlocked, "unlock:exactly-all")
     \cup If(reg /\ lk > 0 /\ f > 0 /\ ~unlocked /\ ~ok, "unlock:refused-or-rolled-back")
     \cup If(reg /\ unlocked /\ ~ok, "unlock:kept-though-message-failed")
     \cup If(reg /\ lk > 0 /\ Cardinality(DOMAIN tx.fee) > 1, "unlock:fee-with-extra-denomination")
     \cup If(reg /\ lk > 0 /\ known /\ p \in DOMAIN s.vest, "unlock:vesting-payer")
     \cup If(~reg /\ lk > 0 /\ f > 0, "fee:non-registry-tx-of-locked-holder")
     \cup If(~reg /\ lk > 0 /\ f > 0 /\ HasMsg(ev, {"UpdParams"}), "fee:module-params-message-of-locked-holder")
     \cup If(reg /\ lk > 0 /\ tx.granter # "" /\ tx.signers # <<>> /\ tx.signers # RequiredSigners(tx.msgs), "feegrant:registry-tx-of-locked-holder-signed-by-a-stranger")
     \cup If(NestedRegistryOps(tx.msgs), "exec:nested-registry-op")
     \cup If(HasMsg(ev, {"Send"}) /\ AnyMsg(ev, LAMBDA m : m.t = "Send" /\ m.to \in {"ent", "stream"}), "send:to-escrow")
     \cup If(reg /\ Len(tx.msgs) > 1 /\ ~ok /\ unlocked, "multi:later-message-fails-after-unlock")
     \cup If(tx.granter # "" /\ reg /\ lk > 0 /\ unlocked, "feegrant:registry-tx-of-locked-holder-paid-by-granter")
     \cup If(tx.granter # "" /\ reg /\ lk = 0 /\ ok, "feegrant:registry-tx-paid-by-granter")
     \cup If(tx.granter # "" /\ ~reg /\ ok, "feegrant:other-tx-paid-by-granter")
     \cup If(tx.granter # "" /\ ~Has(s.fgrants, FGrantKey(tx.granter, p)), "feegrant:no-allowance")
     \cup If(tx.granter # "" /\ Has(s.fgrants, FGrantKey(tx.granter, p)) /\ Spendable(s, tx.granter, d) < f, "feegrant:granter-cannot-pay")
     \cup If(tx.granter # "" /\ Has(s.fgrants, FGrantKey(tx.granter, p)) /\ reg /\ known /\ Spendable(s, p, d) + lk < f, "feegrant:payer-cannot-cover-though-granter-pays")
     \cup If(ok /\ HasMsg(ev, {"FRevoke"}), "feegrant:revoked")
     \* an explicit fee payer (a second signer who sponsors the fee): the unlock concerns the payer, not the owner who signs first
     \cup If(reg /\ ok /\ tx.msgs # <<>> /\ p # SignerOf(tx.msgs[1]) /\ SignerOf(tx.msgs[1]) \in DOMAIN s.ent.locked /\ s.ent.locked[SignerOf(tx.msgs[1])] > 0 /\ f > 0,
             "payer:sponsor-pays-registry-fee-of-a-locked-holder")
     \cup If(reg /\ ok /\ tx.msgs # <<>> /\ p # SignerOf(tx.msgs[1]) /\ unlocked, "payer:locked-holder-sponsors-anothers-registry-fee")

RegTxMarksK(s, ev, t, ok, k) ==
  LET ChOk(kk, m) == ChExists(s, kk, m.id)
      KOf(m) == k
      IsRec(m) == m.t = (IF k = "wrk" THEN "WRec" ELSE "BRec")
      IsBuy(m) == m.t = (IF k = "wrk" THEN "WBuy" ELSE "BBuy")
      L(x) == k \o ":" \o x
      C(m) == ChOf(s, KOf(m), m.id)
  IN If(ok /\ AnyMsg(ev, LAMBDA m : IsRec(m) /\ ChOk(KOf(m), m) /\ C(m).num >= C(m).limit /\ C(m).limit = s[KOf(m)].p.def), L("rec:prune-at-default-limit"))
     \cup If(ok /\ AnyMsg(ev, LAMBDA m : IsRec(m) /\ ChOk(KOf(m), m) /\ C(m).num >= C(m).limit /\ C(m).limit > s[KOf(m)].p.def), L("rec:prune-at-raised-limit"))
     \cup If(ok /\ AnyMsg(ev, LAMBDA m : IsRec(m) /\ ChOk(KOf(m), m) /\ C(m).limit > s[KOf(m)].p.max), L("rec:limit-above-lowered-max"))
     \cup If(ok /\ AnyMsg(ev, LAMBDA m : IsRec(m) /\ ChOk(KOf(m), m) /\ C(m).num < C(m).limit /\ Len(s.aux.ever[KOf(m)][ChIdx(s, KOf(m), m.id)]) > C(m).num),
             L("rec:refill-after-purchase"))
     \cup If(k = "wrk" /\ ok /\ AnyMsg(ev, LAMBDA m : m.t = "WRec" /\ m.h >= 500000000), L("rec:huge-height"))
     \cup If(k = "wrk" /\ AnyMsg(ev, LAMBDA m : m.t = "WRec" /\ ChOk("wrk", m) /\ C(m).last >= 500000000 /\ C(m).owner = m.owner), L("rec:after-huge-height"))
     \cup If(k = "wrk" /\ AnyMsg(ev, LAMBDA m : m.t = "WRec" /\ ChOk("wrk", m) /\ C(m).owner = m.owner /\ m.h = C(m).last /\ C(m).last > 0), L("rec:same-height-again"))
     \cup If(k = "wrk" /\ AnyMsg(ev, LAMBDA m : m.t = "WRec" /\ ChOk("wrk", m) /\ C(m).owner = m.owner /\ m.h < C(m).last /\ m.h \notin Keys(C(m).recs)), L("rec:pruned-height-again"))
     \cup If(AnyMsg(ev, LAMBDA m : (IsRec(m) \/ IsBuy(m)) /\ ChOk(KOf(m), m) /\ C(m).owner # m.owner), L("reg:write-by-stranger"))
     \cup If(ok /\ AnyMsg(ev, LAMBDA m : IsBuy(m) /\ ChOk(KOf(m), m) /\ C(m).limit + m.n = s[KOf(m)].p.max), L("buy:exactly-to-max"))
     \cup If(AnyMsg(ev, LAMBDA m : IsBuy(m) /\ ChOk(KOf(m), m) /\ C(m).owner = m.owner /\ C(m).limit + m.n > s[KOf(m)].p.max /\ m.n < 500000000), L("buy:over-max"))
     \cup If(AnyMsg(ev, LAMBDA m : IsBuy(m) /\ ChOk(KOf(m), m) /\ C(m).owner = m.owner /\ m.n >= 500000000), L("buy:huge"))
     \cup If(AnyMsg(ev, LAMBDA m : IsBuy(m) /\ ChOk(KOf(m), m) /\ C(m).limit > s[KOf(m)].p.max), L("buy:limit-above-lowered-max"))
     \cup If(NestedRegistryOps(ev.msgs) /\ AnyMsg(ev, LAMBDA m : IsBuy(m) /\ ChOk(KOf(m), m) /\ C(m).owner = m.owner /\ C(m).limit > s[KOf(m)].p.max),
             L("buy:nested-with-limit-above-lowered-max"))
     \cup If(NestedRegistryOps(ev.msgs) /\ AnyMsg(ev, LAMBDA m : IsBuy(m) /\ ChOk(KOf(m), m) /\ C(m).owner = m.owner /\ C(m).limit + m.n > s[KOf(m)].p.max),
             L("buy:nested-over-max"))
     \cup If(~ok /\ Len(ev.msgs) > 1 /\ ev.msgs[1].t = (IF k = "wrk" THEN "WReg" ELSE "BReg") /\ t.wrk.next = s.wrk.next /\ t.bcn.next = s.bcn.next, L("reg:registration-rolled-back"))
     \cup If(Cardinality({ j \in DOMAIN MsgsOf(ev) : IsRec(MsgsOf(ev)[j]) }) >= 2 /\ ok, L("rec:two-in-one-tx"))
     \cup If(Cardinality({ j \in DOMAIN MsgsOf(ev) : IsBuy(MsgsOf(ev)[j]) }) >= 2, L("buy:two-in-one-tx"))
     \* a height below the last recorded one that holds no record (a gap, or pruned)
     \cup If(k = "wrk" /\ AnyMsg(ev, LAMBDA m : m.t = "WRec" /\ ChOk(k, m) /\ m.h # 0 /\ m.h < C(m).last /\ ~\E j \in DOMAIN C(m).recs : C(m).recs[j].h = m.h),
             L("rec:lower-height-without-record"))
     \cup If(ok /\ AnyMsg(ev, LAMBDA m : m.t \in {"WReg", "BReg"} /\ IsRegMsg(k, m) /\ (m.moniker = " m " \/ m.moniker = "   " \/ m.name = " n " \/ m.name = " n")), L("reg:white-space-at-the-edges"))
     \* from now on two registrations of the module hold records (what an export has to keep apart)
     \cup If(ok /\ Cardinality({ i \in DOMAIN t[k].ch : t[k].ch[i].recs # <<>> }) >= 2 /\ Cardinality({ i \in DOMAIN s[k].ch : s[k].ch[i].recs # <<>> }) < 2,
             L("rec:second-registration-with-records"))
     \* (registered, written by its owner: the refusal is the slot check's and nothing else's)
     \cup If(~SlotsOk(s, ev.msgs, k) /\ (\E j \in DOMAIN ev.msgs : IsBuy(ev.msgs[j]) /\ IsRegMsg(k, ev.msgs[j]))
             /\ \A j \in DOMAIN ev.msgs : (IsBuy(ev.msgs[j]) /\ IsRegMsg(k, ev.msgs[j])) =>
                    ChOk(k, ev.msgs[j]) /\ C(ev.msgs[j]).owner = ev.msgs[j].owner /\ ev.msgs[j].n <= Remaining(s[k].p, C(ev.msgs[j]).limit),
             L("buy:each-within-the-limit-sum-above-it"))
     \* ... by a payer who holds locked eFUND (what a wrong admission would unlock)
     \cup If(~SlotsOk(s, ev.msgs, k) /\ TxOf(ev).payer \in DOMAIN s.ent.locked /\ s.ent.locked[TxOf(ev).payer] > 0 /\ (\E j \in DOMAIN ev.msgs : IsBuy(ev.msgs[j]) /\ IsRegMsg(k, ev.msgs[j]))
             /\ \A j \in DOMAIN ev.msgs : (IsBuy(ev.msgs[j]) /\ IsRegMsg(k, ev.msgs[j])) =>
                    ChOk(k, ev.msgs[j]) /\ C(ev.msgs[j]).owner = ev.msgs[j].owner /\ ev.msgs[j].n <= Remaining(s[k].p, C(ev.msgs[j]).limit),
             L("buy:each-within-the-limit-sum-above-it+locked-payer"))
     \cup If(AnyMsg(ev, LAMBDA m : IsBuy(m) /\ ~ChOk(k, m) /\ m.n <= s[k].p.max - s[k].p.def), L("buy:unregistered-id"))
     \cup If(ok /\ Len(s[k].ch) >= 1 /\ AnyMsg(ev, LAMBDA m : m.t = (IF k = "wrk" THEN "WReg" ELSE "BReg") /\ s[k].ch[Len(s[k].ch)].owner # m.owner), L("reg:second-owner"))

RegTxMarks(s, ev, t, ok) == RegTxMarksK(s, ev, t, ok, "wrk") \cup RegTxMarksK(s, ev, t, ok, "bcn")

SameSecondLabel(T, w) ==
  CASE T = "STopUp" -> (IF w = "before" THEN "topup:in-the-second-of-the-zero-time-before-it" ELSE "topup:in-the-second-of-the-zero-time-after-it")
    [] T = "SClaim" -> (IF w = "before" THEN "claim:in-the-second-of-the-zero-time-before-it" ELSE "claim:in-the-second-of-the-zero-time-after-it")
    [] T = "SRate" -> (IF w = "before" THEN "rate:in-the-second-of-the-zero-time-before-it" ELSE "rate:in-the-second-of-the-zero-time-after-it")
    [] OTHER -> (IF w = "before" THEN "cancel:in-the-second-of-the-zero-time-before-it" ELSE "cancel:in-the-second-of-the-zero-time-after-it")
StrTxMarks(s, ev, t, ok) ==
  LET HasS(m) == HasStream(s, m.receiver, m.sender)
      X(m) == StreamOf(s, m.receiver, m.sender)
      Settles(m) == m.t \in {"SClaim", "SRate", "SCancel"} \/ (m.t = "STopUp" /\ HasS(m) /\ X(m).dzt <= s.time)
      full == s.str.p.feeNum = s.str.p.feeDen
  IN If(ok /\ full /\ AnyMsg(ev, LAMBDA m : Settles(m) /\ HasS(m) /\ X(m).dep > 0 /\ s.time - X(m).last >= 1000), "release:fee-100-percent")
     \* an operation that names the two parties of an existing stream in each other's role (signed by the one named as its signer)
     \cup If(AnyMsg(ev, LAMBDA m : m.t \in {"SClaim", "STopUp", "SRate", "SCancel"} /\ ~HasS(m) /\ HasStream(s, m.sender, m.receiver)), "stream:op-with-roles-reversed")
     \cup If(ok /\ s.str.p.feeNum = 0 /\ AnyMsg(ev, LAMBDA m : Settles(m) /\ HasS(m) /\ X(m).dep > 0 /\ s.time - X(m).last >= 1000), "release:fee-zero")
     \cup If(ok /\ AnyMsg(ev, LAMBDA m : m.t = "SClaim" /\ HasS(m) /\ X(m).dep > 0 /\ s.time >= X(m).dzt), "claim:at-or-after-zero-time")
     \cup If(ok /\ AnyMsg(ev, LAMBDA m : m.t = "SClaim" /\ HasS(m) /\ X(m).dep > 0 /\ s.time < X(m).dzt /\ s.time - X(m).last < 1000), "claim:sub-second")
     \cup If(ok /\ AnyMsg(ev, LAMBDA m : m.t = "SClaim" /\ HasS(m) /\ X(m).dep > 0 /\ s.time < X(m).dzt /\ (s.time - X(m).last) % 1000 # 0 /\ s.time - X(m).last > 1000), "claim:fractional-seconds")
     \cup If(AnyMsg(ev, LAMBDA m : m.t = "SClaim" /\ HasS(m) /\ X(m).dep = 0), "claim:drained")
     \cup If(ok /\ AnyMsg(ev, LAMBDA m : m.t = "SRate" /\ HasS(m) /\ X(m).dep > 0 /\ s.time < X(m).dzt /\ s.time - X(m).last >= 1000), "rate:live-with-elapsed-seconds")
     \cup If(ok /\ AnyMsg(ev, LAMBDA m : m.t = "SRate" /\ HasS(m) /\ X(m).dep > 0 /\ s.time >= X(m).dzt), "rate:expired")
     \cup If(ok /\ AnyMsg(ev, LAMBDA m : m.t = "SRate" /\ HasS(m) /\ X(m).dep = 0), "rate:drained")
     \cup If(ok /\ AnyMsg(ev, LAMBDA m : m.t = "STopUp" /\ HasS(m) /\ X(m).dep > 0 /\ s.time < X(m).dzt /\ s.time - X(m).last >= 1000), "topup:live-with-elapsed-seconds")
     \cup If(ok /\ AnyMsg(ev, LAMBDA m : m.t = "STopUp" /\ HasS(m) /\ X(m).dep > 0 /\ s.time >= X(m).dzt), "topup:expired-with-remainder")
     \cup If(ok /\ AnyMsg(ev, LAMBDA m : m.t = "STopUp" /\ HasS(m) /\ X(m).dep = 0), "topup:drained")
     \cup If(ok /\ AnyMsg(ev, LAMBDA m : m.t = "STopUp" /\ HasS(m) /\ X(m).dep = 0 /\ X(m).dzt = s.time /\ X(m).last < s.time),
             "topup:drained-with-zero-time-equal-to-now")
     \cup If(ok /\ AnyMsg(ev, LAMBDA m : m.t = "STopUp" /\ HasS(m) /\ X(m).dep > 0 /\ X(m).dzt = s.time), "topup:zero-time-equal-to-now")
     \cup If(ok /\ AnyMsg(ev, LAMBDA m : m.t = "SClaim" /\ HasS(m) /\ X(m).dep > 0 /\ X(m).dzt = s.time), "claim:zero-time-equal-to-now")
     \cup UNION { If(ok /\ AnyMsg(ev, LAMBDA m : m.t = T /\ HasS(m) /\ X(m).dep > 0 /\ s.time < X(m).dzt /\ s.time \div 1000 = X(m).dzt \div 1000),
                      SameSecondLabel(T, "before"))
                   \cup If(ok /\ AnyMsg(ev, LAMBDA m : m.t = T /\ HasS(m) /\ X(m).dep > 0 /\ s.time > X(m).dzt /\ s.time \div 1000 = X(m).dzt \div 1000),
                      SameSecondLabel(T, "after")) : T \in {"STopUp", "SClaim", "SRate", "SCancel"} }
     \cup If(ok /\ AnyMsg(ev, LAMBDA m : m.t = "SCancel" /\ HasS(m) /\ X(m).dep > 0 /\ s.time < X(m).dzt /\ s.time - X(m).last >= 1000), "cancel:live-with-elapsed-seconds")
     \cup If(ok /\ AnyMsg(ev, LAMBDA m : m.t = "SCancel" /\ HasS(m) /\ X(m).dep > 0 /\ s.time >= X(m).dzt), "cancel:expired")
     \cup If(ok /\ AnyMsg(ev, LAMBDA m : m.t = "SCancel" /\ HasS(m) /\ X(m).dep = 0), "cancel:drained")
     \cup If(ok /\ AnyMsg(ev, LAMBDA m : m.t = "SCreate" /\ \E k \in DOMAIN s.str.s : s.str.s[k].den = m.denom /\ s.str.s[k].dep > 0), "create:second-stream-same-denomination")
     \cup If(ok /\ AnyMsg(ev, LAMBDA m : m.t = "SCreate" /\ HasStream(s, m.sender, m.receiver)), "create:reverse-direction-exists")
     \cup If(AnyMsg(ev, LAMBDA m : m.t = "SCreate" /\ m.receiver \in Blocked /\ Get(m, "enc", "lower") = "lower"), "create:blocked-receiver")
     \cup If(AnyMsg(ev, LAMBDA m : m.t = "SCreate" /\ m.receiver \in Blocked /\ Get(m, "enc", "lower") = "upper"), "create:blocked-receiver-upper-case-address")
     \cup If(ok /\ Cardinality({ j \in DOMAIN MsgsOf(ev) : MsgsOf(ev)[j].t \in {"SCreate", "SClaim", "STopUp", "SRate", "SCancel"} }) >= 2, "stream:two-ops-in-one-tx")
     \cup If(~ok /\ Len(ev.msgs) > 1 /\ HasStreamMsg(ev), "stream:multi-message-tx-fails")

(* operations that meet a key which once existed only inside a rolled-back transaction (st.aux.ghost) *)
GhostTxMarks(s, ev, t, ok) ==
  LET G == s.aux.ghost
      Rec(k) == IF k = "wrk" THEN "WRec" ELSE "BRec"
      Buy(k) == IF k = "wrk" THEN "WBuy" ELSE "BBuy"
      Reg(k) == IF k = "wrk" THEN "WReg" ELSE "BReg"
  IN UNION { If(AnyMsg(ev, LAMBDA m : m.t \in {Rec(k), Buy(k)} /\ <<k, m.id, m.owner>> \in G /\ ChExists(s, k, m.id) /\ ChOf(s, k, m.id).owner # m.owner),
                "ghost:" \o k \o ":write-by-rolled-back-owner")
             \cup If(AnyMsg(ev, LAMBDA m : m.t \in {Rec(k), Buy(k)} /\ ChExists(s, k, m.id) /\ ChOf(s, k, m.id).owner = m.owner
                                          /\ \E g \in G : g[1] = k /\ g[2] = m.id /\ g[3] # m.owner), "ghost:" \o k \o ":owner-write-on-reused-id")
             \cup If(ok /\ AnyMsg(ev, LAMBDA m : m.t = Reg(k) /\ \E g \in G : g[1] = k /\ g[2] = s[k].next), "ghost:" \o k \o ":registration-reuses-rolled-back-id")
             \* a purchase that ran inside a rolled-back transaction (the limit must be what it was), then another operation on the registration
             \cup If(AnyMsg(ev, LAMBDA m : m.t \in {Rec(k), Buy(k)} /\ <<k \o "-limit", m.id, "-">> \in G), "ghost:" \o k \o ":op-after-rolled-back-purchase")
           : k \in {"wrk", "bcn"} }
     \cup If(AnyMsg(ev, LAMBDA m : m.t = "Decide" /\ \E g \in G : g[1] = "po" /\ g[2] = m.id), "ghost:decide-on-rolled-back-order-id")
     \cup If(ok /\ AnyMsg(ev, LAMBDA m : m.t = "Raise" /\ \E g \in G : g[1] = "po" /\ g[2] = s.ent.next), "ghost:raise-reuses-rolled-back-id")
     \cup If(AnyMsg(ev, LAMBDA m : m.t \in {"SCreate", "SClaim", "STopUp", "SRate", "SCancel"} /\ <<"str", SKey(m.receiver, m.sender), "-">> \in G),
             "ghost:stream-op-on-rolled-back-pair")
     \* a top-up / rate change / claim / cancel that ran inside a rolled-back transaction (the stream must be what it was), then another operation on it
     \cup If(ok /\ AnyMsg(ev, LAMBDA m : m.t \in {"SClaim", "STopUp", "SRate", "SCancel"} /\ <<"str-mod", SKey(m.receiver, m.sender), "-">> \in G),
             "ghost:stream-op-after-rolled-back-change")

(* the group policy account at work (Chain.tla GExec) *)
GroupTxMarks(s, ev, t, ok) ==
  LET GX == { i \in DOMAIN ev.msgs : ev.msgs[i].t = "GExec" }
      Ran(i) == RunMsgs(s, ev.msgs[i].msgs, <<>>).ok
      Inner(i, T) == \E j \in DOMAIN ev.msgs[i].msgs : ev.msgs[i].msgs[j].t \in T
      StreamT == {"SCreate", "SClaim", "STopUp", "SRate", "SCancel"}
      RegT == {"WReg", "WRec", "WBuy", "BReg", "BRec", "BBuy"}
  IN If(ok /\ \E i \in GX : Ran(i) /\ Inner(i, StreamT), "group:stream-operation-by-proposal")
     \cup If(ok /\ \E i \in GX : Ran(i) /\ Inner(i, RegT), "group:registry-operation-by-proposal")
     \cup If(ok /\ \E i \in GX : Ran(i) /\ Inner(i, {"Raise"}), "group:order-raised-by-proposal")
     \cup If(ok /\ \E i \in GX : ~Ran(i) /\ Len(ev.msgs[i].msgs) > 1 /\ RunMsg(s, ev.msgs[i].msgs[1]).ok, "group:proposal-rolled-back-after-first-message")
     \cup If(ok /\ \E i \in GX : ~Ran(i) /\ Len(ev.msgs[i].msgs) = 1, "group:proposal-message-fails-transaction-succeeds")
     \cup If(\E i \in GX : ev.msgs[i].member \notin GroupMembers, "group:proposal-by-non-member")
     \cup If(\E i \in GX : \E j \in DOMAIN ev.msgs[i].msgs : SignerOf(ev.msgs[i].msgs[j]) # "grp", "group:message-not-the-policy-accounts")
     \cup If(GX = {} /\ \E j \in DOMAIN ev.msgs : SignerOf(ev.msgs[j]) = "grp", "group:direct-transaction-in-the-policy-accounts-name")
     \cup If(ok /\ \E k \in DOMAIN t.str.s : t.str.s[k].dep > 0 /\ (k \notin DOMAIN s.str.s \/ s.str.s[k].dep = 0) /\ GX # {}, "group:policy-account-stream-funded")
     \cup If(ok /\ AnyMsg(ev, LAMBDA m : m.t = "SClaim" /\ m.sender = "grp" /\ HasStream(s, m.receiver, m.sender) /\ StreamOf(s, m.receiver, m.sender).dep > 0), "group:claim-from-policy-account-stream")

EndMarks0(s, t) ==
     If(s.ent.p # t.ent.p /\ RaisedIdx(s) # {}, "params:enterprise-changed-with-raised-order")
  \cup If(s.ent.p # t.ent.p /\ AcceptedIdx(s) # {}, "params:enterprise-changed-with-accepted-order")
  \cup If(s.ent.p.signers # t.ent.p.signers /\ \E i \in RaisedIdx(s) : s.ent.po[i].dec # <<>>, "params:signers-changed-with-decided-order")
  \cup If(\E k \in {"wrk", "bcn"} : s[k].p # t[k].p /\ s[k].ch # <<>>, "params:registry-changed-with-registrations")
  \cup If(\E k \in {"wrk", "bcn"} : \E i \in DOMAIN s[k].ch : s[k].ch[i].limit > t[k].p.max /\ s[k].ch[i].limit <= s[k].p.max, "params:max-lowered-below-a-limit")
  \cup If(s.str.p # t.str.p /\ \E k \in DOMAIN s.str.s : s.str.s[k].dep > 0, "params:stream-fee-changed-with-funded-stream")

(* operations whose outcome depends on a parameter that a rolled-back proposal once wrote (st.aux.ghostp) *)
GhostEnt(s) == { g[2] : g \in { h \in s.aux.ghostp : h[1] = "ent" } }
StatusesAfterTally(s) == LET u == EntBeginBlocker(s) IN [i \in DOMAIN u.ent.po |-> u.ent.po[i].st]
GhostBeginMarks(s, t) ==
  If(RaisedIdx(s) # {} /\ \E p \in GhostEnt(s) :
        p # s.ent.p /\ StatusesAfterTally([t EXCEPT !.ent = s.ent, !.halted = FALSE]) # StatusesAfterTally([t EXCEPT !.ent = [s.ent EXCEPT !.p = p], !.halted = FALSE]),
     "ghostparams:tally-outcome-would-differ")
GhostParamTxMarks(s, ev, t, ok) ==
     If(ok /\ \E g \in s.aux.ghostp : g[1] \in {"wrk", "bcn"} /\ g[2] # s[g[1]].p
            /\ AnyMsg(ev, LAMBDA m : IsRegMsg(g[1], m)), "ghostparams:registry-op")
  \cup If(ok /\ (\E g \in s.aux.ghostp : g[1] = "str" /\ g[2] # s.str.p)
            /\ AnyMsg(ev, LAMBDA m : m.t \in {"SClaim", "SRate", "SCancel", "STopUp"} /\ HasStream(s, m.receiver, m.sender)
                                     /\ StreamOf(s, m.receiver, m.sender).dep > 0 /\ s.time - StreamOf(s, m.receiver, m.sender).last >= 1000),
          "ghostparams:stream-release")
  \cup If(ok /\ GhostEnt(s) # {} /\ AnyMsg(ev, LAMBDA m : m.t = "Decide"), "ghostparams:decision")

DueProps(s) == { i \in DOMAIN s.aux.props : s.aux.props[i].end <= s.time }
EndMarks(s, t) ==
     If(\E i \in DueProps(s) : s.aux.props[i].yes /\ Len(s.aux.props[i].msgs) >= 2 /\ ~RunMsgs(s, s.aux.props[i].msgs, <<>>).ok
                                /\ RunMsg(s, s.aux.props[i].msgs[1]).ok, "gov:proposal-rolled-back-after-first-message")
  \cup EndMarks0(s, t)

Marks(s, ev, t, ok) ==
  CASE ev.a = "BeginBlock" -> BeginMarks(s, t) \cup GhostBeginMarks(s, t)
    [] ev.a = "DeliverTx" -> EntTxMarks(s, ev, t, ok) \cup FeeTxMarks(s, ev, t, ok) \cup RegTxMarks(s, ev, t, ok) \cup StrTxMarks(s, ev, t, ok) \cup GhostTxMarks(s, ev, t, ok) \cup GhostParamTxMarks(s, ev, t, ok) \cup GroupTxMarks(s, ev, t, ok)
    [] ev.a = "EndBlock" -> EndMarks(s, t)
    [] OTHER -> {}

------------------------------------------------------------------------------
(* emission: at most GoalCap behaviours per label and TLC worker (registers are per worker) *)
GoalCap == 3
AllLabels == <<
  "tally:contested", "tally:stale+quorum", "tally:stale+some-accepts", "tally:stale+rejected",
  "tally:accepted-with-former-signer-decision", "tally:rejected-with-former-signer-decision", "tally:open-with-former-signer-decision",
  "tally:more-decisions-than-signers", "tally:two-closed", "complete:two", "complete+accept-same-block", "complete:on-top-of-locked",
  "complete:after-spending", "complete:vesting-purchaser", "complete:purchaser-delisted",
  "decide:by-former-signer", "decide:after-signer-change", "decide:twice", "decide:on-accepted", "decide:on-rejected", "decide:on-completed", "raise:after-delisting",
  "whitelist:remove-with-open-order", "gov:proposal-with-raised-order",
  "unlock:partial+others-locked", "unlock:partial-alone", "unlock:part-of-locked+others-locked", "unlock:exactly-all",
  "unlock:refused-or-rolled-back", "unlock:kept-though-message-failed", "unlock:fee-with-extra-denomination", "unlock:vesting-payer",
  "fee:non-registry-tx-of-locked-holder", "exec:nested-registry-op", "send:to-escrow", "multi:later-message-fails-after-unlock",
  "wrk:rec:prune-at-default-limit", "bcn:rec:prune-at-default-limit", "wrk:rec:prune-at-raised-limit", "bcn:rec:prune-at-raised-limit", "wrk:rec:limit-above-lowered-max", "bcn:rec:limit-above-lowered-max", "wrk:rec:refill-after-purchase", "bcn:rec:refill-after-purchase", "wrk:rec:huge-height", "bcn:rec:huge-height",
  "wrk:rec:after-huge-height", "bcn:rec:after-huge-height", "wrk:rec:same-height-again", "bcn:rec:same-height-again", "wrk:rec:pruned-height-again", "bcn:rec:pruned-height-again", "wrk:reg:write-by-stranger", "bcn:reg:write-by-stranger", "wrk:buy:exactly-to-max", "bcn:buy:exactly-to-max", "wrk:buy:over-max", "bcn:buy:over-max",
  "wrk:buy:huge", "bcn:buy:huge", "wrk:buy:limit-above-lowered-max", "bcn:buy:limit-above-lowered-max", "wrk:reg:registration-rolled-back", "bcn:reg:registration-rolled-back", "wrk:rec:two-in-one-tx", "bcn:rec:two-in-one-tx", "wrk:buy:two-in-one-tx", "bcn:buy:two-in-one-tx", "wrk:reg:second-owner", "bcn:reg:second-owner", "wrk:buy:each-within-the-limit-sum-above-it", "bcn:buy:each-within-the-limit-sum-above-it", "wrk:buy:each-within-the-limit-sum-above-it+locked-payer", "bcn:buy:each-within-the-limit-sum-above-it+locked-payer",
  "wrk:buy:unregistered-id", "bcn:buy:unregistered-id",
  "release:fee-100-percent", "release:fee-zero", "claim:at-or-after-zero-time", "claim:sub-second", "claim:fractional-seconds", "claim:drained",
  "rate:live-with-elapsed-seconds", "rate:expired", "rate:drained", "topup:live-with-elapsed-seconds", "topup:expired-with-remainder",
  "topup:drained", "cancel:live-with-elapsed-seconds", "cancel:expired", "cancel:drained", "create:second-stream-same-denomination",
  "create:reverse-direction-exists", "stream:two-ops-in-one-tx", "stream:multi-message-tx-fails",
  "ghost:wrk:write-by-rolled-back-owner", "ghost:bcn:write-by-rolled-back-owner", "ghost:wrk:owner-write-on-reused-id", "ghost:bcn:owner-write-on-reused-id",
  "ghost:wrk:registration-reuses-rolled-back-id", "ghost:bcn:registration-reuses-rolled-back-id", "ghost:wrk:op-after-rolled-back-purchase", "ghost:bcn:op-after-rolled-back-purchase",
  "ghost:decide-on-rolled-back-order-id", "ghost:raise-reuses-rolled-back-id", "ghost:stream-op-on-rolled-back-pair", "ghost:stream-op-after-rolled-back-change", "stream:op-with-roles-reversed",
  "decide:twice-in-another-spelling-of-the-address", "decide:first-in-upper-case-spelling", "tally:stale+no-decisions", "decide:twice-after-another-signer-decided",
  "wrk:rec:second-registration-with-records", "bcn:rec:second-registration-with-records",
  "wrk:rec:lower-height-without-record", "wrk:reg:white-space-at-the-edges", "bcn:reg:white-space-at-the-edges",
  "group:stream-operation-by-proposal", "group:registry-operation-by-proposal", "group:order-raised-by-proposal", "group:proposal-rolled-back-after-first-message",
  "group:proposal-message-fails-transaction-succeeds", "group:proposal-by-non-member", "group:message-not-the-policy-accounts",
  "group:direct-transaction-in-the-policy-accounts-name", "group:policy-account-stream-funded", "group:claim-from-policy-account-stream",
  "ghostparams:tally-outcome-would-differ", "ghostparams:registry-op", "ghostparams:stream-release", "ghostparams:decision",
  "feegrant:registry-tx-of-locked-holder-paid-by-granter", "feegrant:registry-tx-paid-by-granter", "feegrant:other-tx-paid-by-granter",
  "payer:sponsor-pays-registry-fee-of-a-locked-holder", "payer:locked-holder-sponsors-anothers-registry-fee",
  "fee:module-params-message-of-locked-holder", "feegrant:registry-tx-of-locked-holder-signed-by-a-stranger",
  "feegrant:no-allowance", "feegrant:granter-cannot-pay", "feegrant:payer-cannot-cover-though-granter-pays", "feegrant:revoked",
  "decide:by-removed-signer", "whitelist:by-removed-signer", "ent:accepted-from-non-signer", "wrk:buy:nested-with-limit-above-lowered-max", "bcn:buy:nested-with-limit-above-lowered-max",
  "wrk:buy:nested-over-max", "bcn:buy:nested-over-max", "topup:drained-with-zero-time-equal-to-now", "topup:zero-time-equal-to-now", "claim:zero-time-equal-to-now",
  "create:blocked-receiver", "create:blocked-receiver-upper-case-address",
  "gov:proposal-rolled-back-after-first-message", "complete:two-same-purchaser",
  "topup:in-the-second-of-the-zero-time-before-it", "topup:in-the-second-of-the-zero-time-after-it",
  "claim:in-the-second-of-the-zero-time-before-it", "claim:in-the-second-of-the-zero-time-after-it",
  "rate:in-the-second-of-the-zero-time-before-it", "rate:in-the-second-of-the-zero-time-after-it",
  "cancel:in-the-second-of-the-zero-time-before-it", "cancel:in-the-second-of-the-zero-time-after-it",
  "params:enterprise-changed-with-raised-order", "params:enterprise-changed-with-accepted-order", "params:signers-changed-with-decided-order",
  "params:registry-changed-with-registrations", "params:max-lowered-below-a-limit", "params:stream-fee-changed-with-funded-stream" >>
RegBase == 100      \* TLCSet/TLCGet registers RegBase + index
LabelIdx(l) == CHOOSE i \in DOMAIN AllLabels : AllLabels[i] = l
GoalRegsInit == \A i \in DOMAIN AllLabels : TLCSet(RegBase + i, 0)
EmitGoals(ms, h) ==
  \A m \in ms :
     LET r == RegBase + LabelIdx(m) IN
     IF TLCGet(r) < GoalCap THEN PrintT(<<"GOAL", m, ToJson(h)>>) /\ TLCSet(r, TLCGet(r) + 1) ELSE TRUE

\* one transition of a bounded model: s, h = state and history before, t, h2 = after
\* (the models append EndBlock and Commit in one step; Commit changes nothing)
GoalStep(s, h, t, h2) ==
  IF Len(h2) = Len(h) + 1 THEN LET ev == h2[Len(h2)] IN EmitGoals(Marks(s, ev, t, Step(s, ev).ok), h2)
  ELSE IF Len(h2) = Len(h) + 2 THEN EmitGoals(Marks(s, h2[Len(h2) - 1], t, TRUE), h2)
  ELSE TRUE
=============================================================================
