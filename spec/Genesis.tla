------------------------------- MODULE Genesis -------------------------------
(* The abstract state the real chain is in after InitChain(g) and its first  *)
(* (empty) block, for an abstract genesis g as the Go harness understands it *)
(* (harness/world.go GenSpec).                                               *)
EXTENDS Paginate, Json

\* the abstract state the real chain is in after InitChain(Gen) and its first (empty) block
RegInit(g) == [p |-> [feeReg |-> g.feeReg, feeRec |-> g.feeRec, feePur |-> g.feePur, denom |-> g.denom, def |-> g.def, max |-> g.max],
               next |-> g.startId, start |-> g.startId, ch |-> <<>>]
VestOrig(g, a, d) == IF "vesting" \in DOMAIN g /\ a \in DOMAIN g.vesting THEN g.vesting[a][d] ELSE 0
StateOf(g) ==
  [time |-> 0, height |-> 2, halted |-> FALSE,
   \* "grp": the group policy account (Chain.tla GExec), a party like any other but for its 32-byte address and the way it signs
   \* "gov": the governance module account acts for itself through proposals (it can be whitelisted, raise orders, hold locked eFUND)
   bal |-> [a \in Range(g.accts) |-> [d \in Denoms |-> g.bal[a][d] + VestOrig(g, a, d)]] @@ [x \in ModuleAccts \cup {"gov", "grp"} |-> [nund |-> 0, other |-> 0]],
   supply |-> [d \in Denoms |-> SumOver([a \in Range(g.accts) |-> g.bal[a][d] + VestOrig(g, a, d)], Range(g.accts))],
   vest |-> [a \in (IF "vesting" \in DOMAIN g THEN DOMAIN g.vesting ELSE {}) |->
               [orig |-> g.vesting[a], dv |-> [d \in Denoms |-> 0], df |-> [d \in Denoms |-> 0]]],
   ent |-> [p |-> [signers |-> g.ent.signers, min |-> g.ent.min, limit |-> g.ent.limit, denom |-> g.ent.denom],
            next |-> g.ent.startId, start |-> g.ent.startId, po |-> <<>>, rq |-> <<>>, aq |-> <<>>,
            wl |-> [a \in Range(g.accts) \cup {"gov", "grp"} |-> Contains(g.ent.wl, a)], wlExtra |-> 0,
            locked |-> [a \in Range(g.accts) \cup {"gov", "grp"} |-> 0], spent |-> [a \in Range(g.accts) \cup {"gov", "grp"} |-> 0],
            totLocked |-> 0, totLockedDen |-> g.ent.denom, totSpent |-> 0],
   wrk |-> RegInit(g.wrk), bcn |-> RegInit(g.bcn),
   str |-> [p |-> [feeNum |-> g.str.feeNum, feeDen |-> g.str.feeDen], s |-> <<>>],
   grants |-> <<>>, fgrants |-> <<>>,
   aux |-> [props |-> <<>>, nextProp |-> 1, ever |-> [wrk |-> <<>>, bcn |-> <<>>], sh |-> <<>>, ghost |-> {}, ghostp |-> {}, exsig |-> {}, approved |-> {}]]


EndEv == [a |-> "EndBlock"]
ComEv == [a |-> "Commit"]
Tx(msgs) == [a |-> "DeliverTx", msgs |-> msgs]
TxFee(msgs, fee) == [a |-> "DeliverTx", msgs |-> msgs, fee |-> fee]
\* a governance parameter update as one transaction: proposal with deposit + yes vote of the validator's delegator
GovTxFor(st, mod, p) == Tx(<< [t |-> "GovProp", proposer |-> "V",
                              msgs |-> << [t |-> "UpdParams", mod |-> mod, authority |-> "gov", p |-> p] >>],
                             [t |-> "Vote", voter |-> "V", id |-> st.aux.nextProp] >>)
\* the same proposal followed by a message that passes submission but fails when the proposal executes (a transfer
\* the governance account cannot afford): the whole proposal is rolled back, the parameters must not change
GovTxFailingFor(st, mod, p) == Tx(<< [t |-> "GovProp", proposer |-> "V",
                              msgs |-> << [t |-> "UpdParams", mod |-> mod, authority |-> "gov", p |-> p],
                                          [t |-> "Send", from |-> "gov", to |-> "A1", amt |-> 5, denom |-> "nund"] >>],
                             [t |-> "Vote", voter |-> "V", id |-> st.aux.nextProp] >>)
=============================================================================
