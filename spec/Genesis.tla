------------------------------- MODULE Genesis -------------------------------
(* The abstract state the real chain is in after InitChain(g) and its first  *)
(* (empty) block, for an abstract genesis g as the Go harness understands it *)
(* (harness/world.go GenSpec).                                               *)
EXTENDS Props, Json

\* the abstract state the real chain is in after InitChain(Gen) and its first (empty) block
RegInit(g) == [p |-> [feeReg |-> g.feeReg, feeRec |-> g.feeRec, feePur |-> g.feePur, denom |-> g.denom, def |-> g.def, max |-> g.max],
               next |-> g.startId, start |-> g.startId, ch |-> <<>>]
StateOf(g) ==
  [time |-> 0, height |-> 2, halted |-> FALSE,
   bal |-> [a \in Range(g.accts) |-> g.bal[a]] @@ [x \in ModuleAccts |-> [nund |-> 0, other |-> 0]],
   supply |-> [d \in Denoms |-> SumOver([a \in Range(g.accts) |-> g.bal[a][d]], Range(g.accts))],
   ent |-> [p |-> [signers |-> g.ent.signers, min |-> g.ent.min, limit |-> g.ent.limit, denom |-> g.ent.denom],
            next |-> g.ent.startId, start |-> g.ent.startId, po |-> <<>>, rq |-> <<>>, aq |-> <<>>,
            wl |-> [a \in Range(g.accts) |-> Contains(g.ent.wl, a)], wlExtra |-> 0,
            locked |-> [a \in Range(g.accts) |-> 0], spent |-> [a \in Range(g.accts) |-> 0],
            totLocked |-> 0, totLockedDen |-> g.ent.denom, totSpent |-> 0],
   wrk |-> RegInit(g.wrk), bcn |-> RegInit(g.bcn),
   str |-> [p |-> [feeNum |-> g.str.feeNum, feeDen |-> g.str.feeDen], s |-> <<>>],
   aux |-> [props |-> <<>>, nextProp |-> 1, ever |-> [wrk |-> <<>>, bcn |-> <<>>], sh |-> <<>>]]


EndEv == [a |-> "EndBlock"]
ComEv == [a |-> "Commit"]
Tx(msgs) == [a |-> "DeliverTx", msgs |-> msgs]
TxFee(msgs, fee) == [a |-> "DeliverTx", msgs |-> msgs, fee |-> fee]
\* a governance parameter update as one transaction: proposal with deposit + yes vote of the validator's delegator
GovTxFor(st, mod, p) == Tx(<< [t |-> "GovProp", proposer |-> "V",
                              msgs |-> << [t |-> "UpdParams", mod |-> mod, authority |-> "gov", p |-> p] >>],
                             [t |-> "Vote", voter |-> "V", id |-> st.aux.nextProp] >>)
=============================================================================
