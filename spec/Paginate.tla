------------------------------ MODULE Paginate ------------------------------
(* The Cosmos SDK paginators as the four modules' list queries use them      *)
(* (FilteredPaginate, GenericFilteredPaginate; query.Paginate has no filter  *)
(* and behaves like FilteredPaginate with a filter that always matches),     *)
(* over an ordered store with a filter, and the client's paging loop (C20).  *)
(*   keys  : the store's keys in iteration order (a sequence)                *)
(*   M     : the set of keys whose entries match the query's filter          *)
(* A page result is [items: Seq(key), next: index into keys or 0].           *)
EXTENDS Abci

\* ---- continuation by key: iterate from position `start`; after `limit` hits the NEXT entry's key
\*      (matching or not) is the continuation key
RECURSIVE KeyScan(_, _, _, _, _)
KeyScan(keys, M, j, limit, acc) ==
  IF j > Len(keys) THEN [items |-> acc, next |-> 0]
  ELSE IF Len(acc) = limit THEN [items |-> acc, next |-> j]
  ELSE KeyScan(keys, M, j + 1, limit, IF keys[j] \in M THEN Append(acc, keys[j]) ELSE acc)
KeyPage(keys, M, start, limit) == KeyScan(keys, M, start, limit, <<>>)

\* ---- continuation by offset: hits number offset+1 .. offset+limit; the continuation key is the key of
\*      hit number offset+limit+1 (only its presence matters to an offset-paging client)
Hits(keys, M) == SelectSeq(keys, LAMBDA k : k \in M)
OffPage(keys, M, offset, limit) ==
  LET h == Hits(keys, M)
      lo == offset + 1
      hi == Min(offset + limit, Len(h))
  IN [items |-> IF lo > Len(h) THEN <<>> ELSE SubSeq(h, lo, hi),
      next |-> IF Len(h) >= offset + limit + 1 THEN 1 ELSE 0,
      total |-> Len(h)]

\* ---- the paging loops of a client: follow the continuation key / advance the offset by the limit
RECURSIVE KeyLoop(_, _, _, _, _)
KeyLoop(keys, M, start, limit, fuel) ==
  LET p == KeyPage(keys, M, start, limit) IN
  IF p.next = 0 \/ fuel = 0 THEN <<p>> ELSE <<p>> \o KeyLoop(keys, M, p.next, limit, fuel - 1)
RECURSIVE OffLoop(_, _, _, _, _)
OffLoop(keys, M, offset, limit, fuel) ==
  LET p == OffPage(keys, M, offset, limit) IN
  IF p.next = 0 \/ fuel = 0 THEN <<p>> ELSE <<p>> \o OffLoop(keys, M, offset + limit, limit, fuel - 1)
\* the first request of a key-paging client carries no key and is served by the offset branch (offset 0):
\* its continuation key is the key of hit number limit+1, i.e. of the next MATCHING entry
IndexOf(keys, k) == CHOOSE i \in DOMAIN keys : keys[i] = k
FirstPage(keys, M, limit) ==
  LET h == Hits(keys, M) IN
  [items |-> SubSeq(h, 1, Min(limit, Len(h))), next |-> IF Len(h) >= limit + 1 THEN IndexOf(keys, h[limit + 1]) ELSE 0]
KeyLoopFromStart(keys, M, limit) ==
  LET p == FirstPage(keys, M, limit) IN
  IF p.next = 0 THEN <<p>> ELSE <<p>> \o KeyLoop(keys, M, p.next, limit, Len(keys) + 2)
Loop(keys, M, mode, limit) == IF mode = "key" THEN KeyLoopFromStart(keys, M, limit)
                              ELSE OffLoop(keys, M, 0, limit, Len(keys) + 2)

RECURSIVE ConcatItems(_)
ConcatItems(pages) == IF pages = <<>> THEN <<>> ELSE Head(pages).items \o ConcatItems(Tail(pages))

\* C20 on the design: paging returns every matching item exactly once, in key order, and nothing else
LoopComplete(keys, M, mode, limit) == ConcatItems(Loop(keys, M, mode, limit)) = Hits(keys, M)
PagesWithinLimit(keys, M, mode, limit) ==
  LET ps == Loop(keys, M, mode, limit) IN \A i \in DOMAIN ps : Len(ps[i].items) <= limit

------------------------------------------------------------------------------
(* the list queries of the four modules over an observed state o *)
ListKeys(o, q) ==
  CASE q = "po" -> [i \in DOMAIN o.ent.po |-> o.ent.po[i].id]
    [] q = "wrk" -> [i \in DOMAIN o.wrk.ch |-> o.wrk.ch[i].id]
    [] q = "bcn" -> [i \in DOMAIN o.bcn.ch |-> o.bcn.ch[i].id]
    [] q = "str" -> o.str.order
    [] OTHER -> <<>>
\* stream keys are "receiver/sender" over account names of any length (no name contains "/")
HasReceiver(k, r) == Len(k) > Len(r) /\ SubSeq(k, 1, Len(r) + 1) = r \o "/"
HasSender(k, x) == Len(k) > Len(x) /\ SubSeq(k, Len(k) - Len(x), Len(k)) = "/" \o x
ListMatch(o, q, f) ==
  CASE q = "po" -> { o.ent.po[i].id : i \in { j \in DOMAIN o.ent.po :
                        /\ (f.st = "" \/ o.ent.po[j].st = f.st)
                        /\ (f.pur = "" \/ o.ent.po[j].pur = f.pur) } }
    [] q \in {"wrk", "bcn"} -> { o[q].ch[i].id : i \in { j \in DOMAIN o[q].ch :
                        /\ (f.moniker = "" \/ o[q].ch[j].moniker = f.moniker)
                        /\ (f.owner = "" \/ o[q].ch[j].owner = f.owner) } }
    [] q = "str" -> { k \in Range(o.str.order) : /\ (f.sender = "" \/ HasSender(k, f.sender))
                                                  /\ (f.receiver = "" \/ HasReceiver(k, f.receiver)) }
    [] OTHER -> {}
\* by-receiver listings iterate a prefix store: their key sequence is the receiver's sub-sequence
ListKeysFor(o, q, f) == IF q = "str" /\ f.receiver # "" THEN SelectSeq(o.str.order, LAMBDA k : HasReceiver(k, f.receiver))
                        ELSE ListKeys(o, q)

\* the item a point query returns for key k
MetaOf(c, q) == IF q = "wrk" THEN [id |-> c.id, owner |-> c.owner, moniker |-> c.moniker, name |-> c.name, genesis |-> c.genesis,
                                   type |-> c.type, reg |-> c.reg, last |-> c.last, num |-> c.num, low |-> c.low]
                ELSE [id |-> c.id, owner |-> c.owner, moniker |-> c.moniker, name |-> c.name, reg |-> c.reg, last |-> c.last, num |-> c.num, low |-> c.low]
PointItem(o, q, k) ==
  CASE q = "po" -> o.ent.po[CHOOSE i \in DOMAIN o.ent.po : o.ent.po[i].id = k]
    [] q \in {"wrk", "bcn"} -> MetaOf(o[q].ch[CHOOSE i \in DOMAIN o[q].ch : o[q].ch[i].id = k], q)
    [] q = "str" -> o.str.s[k] @@ [k |-> k]
    [] OTHER -> <<>>

\* verdict on one recorded paging loop L = [q, f, mode, limit, ok, pages, items, next, total]
ExpectedLoop(o, L) == Loop(ListKeysFor(o, L.q, L.f), ListMatch(o, L.q, L.f), L.mode, L.limit)
NextCode(o, L, p) == IF p.next = 0 THEN 0
                     ELSE IF L.q = "str" \/ L.mode = "off" THEN 1
                     ELSE ListKeysFor(o, L.q, L.f)[p.next]
RecordedNext(L, i) == IF L.mode = "off" /\ L.next[i] # 0 THEN 1 ELSE L.next[i]
LoopFindings(o, L) ==
  IF L.q = "wl"
  THEN (IF Range(L.pages[1]) = { a \in DOMAIN o.ent.wl : o.ent.wl[a] } /\ Len(L.pages[1]) = Cardinality(Range(L.pages[1])) /\ o.ent.wlExtra = 0
        THEN {} ELSE {"WhitelistListingDiffers"})
  ELSE LET e == ExpectedLoop(o, L)
           flat == ConcatItems(e)
       IN (IF ~L.ok THEN {"ListQueryFailed"} ELSE {})
          \cup (IF L.ok /\ (Len(L.pages) # Len(e) \/ \E i \in DOMAIN e : i <= Len(L.pages) /\ L.pages[i] # e[i].items) THEN {"PageContentDiffers"} ELSE {})
          \cup (IF L.ok /\ Len(L.pages) = Len(e) /\ \E i \in DOMAIN e : RecordedNext(L, i) # NextCode(o, L, e[i]) THEN {"ContinuationDiffers"} ELSE {})
          \cup (IF L.ok /\ L.mode = "off" /\ L.total # Cardinality(ListMatch(o, L.q, L.f)) THEN {"TotalCountDiffers"} ELSE {})
          \cup (IF L.ok /\ Len(L.items) = Len(flat) /\ \E i \in DOMAIN flat : L.items[i] # PointItem(o, L.q, flat[i]) THEN {"ItemDiffersFromPointQuery"} ELSE {})
          \cup (IF L.ok /\ Len(L.items) # Len(flat) THEN {"ItemCountDiffers"} ELSE {})
\* findings carry which query / mode / limit they concern
Where(L) == ":" \o L.q \o ":" \o L.mode \o ":" \o ToString(L.limit)
ListFindings(o, lists) == UNION { { d \o Where(lists[i]) : d \in LoopFindings(o, lists[i]) } : i \in DOMAIN lists }
=============================================================================
