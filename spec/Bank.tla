-------------------------------- MODULE Bank --------------------------------
(* Balances and supply as mainchain uses the SDK bank module.                *)
(* st.bal[acct][denom], st.supply[denom]; acct ranges over the scenario's    *)
(* accounts plus "ent" (enterprise escrow), "stream" (stream escrow) and     *)
(* "fees" (fee collector + distribution, which only ever pass fees along).   *)
(* st.vest[acct] = [orig, dv, df] per denom for (delayed) vesting accounts.  *)
EXTENDS Prelude

Denoms == {"nund", "other"}
ModuleAccts == {"ent", "stream", "fees"}
\* bank's blocked addresses: no MsgSend / module-to-account payout may target them
Blocked == {"ent", "stream", "feecol", "distr", "fees", "bonded", "notbonded", "transfer"}

IsAcct(st, a) == a \in DOMAIN st.bal
BalOf(st, a, d) == IF IsAcct(st, a) /\ d \in DOMAIN st.bal[a] THEN st.bal[a][d] ELSE 0

HasVest(st, a) == a \in DOMAIN st.vest
\* coins still locked by vesting (delayed vesting, nothing vested inside a scenario)
VestLocked(st, a, d) == IF HasVest(st, a) THEN Max(st.vest[a].orig[d] - st.vest[a].dv[d], 0) ELSE 0
Spendable(st, a, d) == Max(BalOf(st, a, d) - VestLocked(st, a, d), 0)

AddBal(st, a, d, n) == IF IsAcct(st, a) /\ d \in DOMAIN st.bal[a]
                       THEN [st EXCEPT !.bal[a][d] = @ + n] ELSE st

Mint(st, modAcct, d, n) == [AddBal(st, modAcct, d, n) EXCEPT !.supply[d] = @ + n]

\* plain transfer; caller has checked funds
Move(st, from, to, d, n) == AddBal(AddBal(st, from, d, -n), to, d, n)

\* bank.DelegateCoins bookkeeping for vesting accounts: X = min(max(V - DV, 0), amount)
TrackDelegation(st, a, d, n) ==
  IF ~HasVest(st, a) THEN st
  ELSE LET v == st.vest[a]
           x == Min(Max(v.orig[d] - v.dv[d], 0), n)
       IN [st EXCEPT !.vest[a].dv[d] = @ + x, !.vest[a].df[d] = @ + (n - x)]
\* bank.UndelegateCoins: X = min(DF, amount) first from delegated-free
TrackUndelegation(st, a, d, n) ==
  IF ~HasVest(st, a) THEN st
  ELSE LET v == st.vest[a]
           x == Min(v.df[d], n)
           y == Min(v.dv[d], n - x)
       IN [st EXCEPT !.vest[a].df[d] = @ - x, !.vest[a].dv[d] = @ - y]

\* MsgSend from a user account
Send(st, from, to, d, n) ==
  IF to \in Blocked \/ ~IsAcct(st, from) \/ n <= 0 THEN Fail(st)
  ELSE IF Spendable(st, from, d) < n THEN Fail(st)
  ELSE Ok(Move(st, from, to, d, n))

SumBalances(st, d) == SumOver([a \in DOMAIN st.bal |-> st.bal[a][d]], DOMAIN st.bal)
=============================================================================
