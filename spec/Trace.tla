-------------------------------- MODULE Trace --------------------------------
(* Trace validation: every recorded step of the REAL application             *)
(* ({a, args, res, post} per ABCI call, written by the Go harness) is judged *)
(* against Chain!Step from the OBSERVED pre-state (DESIGN 5.3), and every    *)
(* property monitor is evaluated on every observed state / step pair.        *)
EXTENDS Paginate, Json, IOUtils

Trace == ndJsonDeserialize(IOEnv.TRACE_FILE)

VARIABLES l,        \* next line to judge
          aux,      \* spec-kept observation state (gov proposals in flight, acceptance histories)
          bad,      \* set of findings <<line, layer, property, detail>>
          snap      \* [line, aux] of the last Commit (or InitChain): what a restart must resume from
vars == <<l, aux, bad, snap>>

InitAux == [props |-> <<>>, nextProp |-> 1, ever |-> [wrk |-> <<>>, bcn |-> <<>>], sh |-> <<>>, ghost |-> {}, ghostp |-> {}, exsig |-> {}, overcap |-> FALSE, approved |-> {}, extreme |-> FALSE, pchanged |-> {}]
\* a behaviour whose genesis says "extreme": amounts are decimal strings far beyond what TLC's integers hold (orders of
\* 2^62 ... 2^200 nund); only the size-independent part of C14 is judged on it (ExtremeJudge)
IsExtreme(ev) == "g" \in DOMAIN ev.args /\ "extreme" \in DOMAIN ev.args.g /\ ev.args.g.extreme

------------------------------------------------------------------------------
(* L2: view comparison between the expected and the observed post-state *)
FieldDiff(pfx, e, o, fields) == { pfx \o <<f>> : f \in { g \in fields : e[g] # o[g] } }
BalDiff(e, o) == { <<"bal", a, d>> : a \in DOMAIN o.bal, d \in Denoms } \cap
                 { <<"bal", a, d>> : a \in { x \in DOMAIN o.bal : TRUE }, d \in { y \in Denoms : TRUE } } \cap
                 { t \in { <<"bal", a, d>> : a \in DOMAIN o.bal, d \in Denoms } : e.bal[t[2]][t[3]] # o.bal[t[2]][t[3]] }
EntFields == {"p", "next", "po", "rq", "aq", "wl", "locked", "spent", "totLocked", "totSpent"}
ChDiff(k, e, o) ==
  IF Len(e[k].ch) # Len(o[k].ch) THEN {<<k, "ch", "len">>}
  ELSE UNION { FieldDiff(<<k, "ch", i>>, e[k].ch[i], o[k].ch[i], DOMAIN e[k].ch[i]) : i \in DOMAIN e[k].ch }
StateDiff(e, o) ==
  BalDiff(e, o)
  \cup FieldDiff(<<"supply">>, e.supply, o.supply, Denoms)
  \cup FieldDiff(<<"ent">>, e.ent, o.ent, EntFields)
  \cup FieldDiff(<<"wrk">>, e.wrk, o.wrk, {"p", "next"}) \cup ChDiff("wrk", e, o)
  \cup FieldDiff(<<"bcn">>, e.bcn, o.bcn, {"p", "next"}) \cup ChDiff("bcn", e, o)
  \cup FieldDiff(<<"str">>, e.str, o.str, {"p", "s"})
  \cup (IF e.grants # o.grants THEN {<<"grants">>} ELSE {})
  \cup (IF e.fgrants # o.fgrants THEN {<<"fgrants">>} ELSE {})
  \cup (IF e.vest # o.vest THEN {<<"vest">>} ELSE {})
  \cup (IF e.time # o.time THEN {<<"time">>} ELSE {})

OutDiff(eo, oo) ==
  IF Len(eo) > Len(oo) THEN {<<"outs", "len">>}
  ELSE UNION { FieldDiff(<<"outs", i>>, eo[i], oo[i], (DOMAIN eo[i]) \cap (DOMAIN oo[i])) : i \in DOMAIN eo }

------------------------------------------------------------------------------
(* which listed properties a differing view component speaks about *)
ChFieldProps(f) ==
  CASE f \in {"id", "owner", "moniker", "name", "genesis", "type", "reg"} -> {"C09"}
    [] f \in {"recs", "iter", "last"} -> {"C07", "C08"}
    [] f \in {"num", "low", "limit", "hasLimit", "stor"} -> {"C08"}
    [] OTHER -> {"C08"}
DiffProps(d, ev) ==
  CASE d[1] = "bal" -> (IF d[2] = "ent" THEN {"C04", "C05"} ELSE IF d[2] = "stream" THEN {"C10"} ELSE
                        IF ev.a = "DeliverTx" /\ \E i \in DOMAIN ev.args.msgs : ev.args.msgs[i].t \in {"SCreate", "SClaim", "STopUp", "SRate", "SCancel"}
                        THEN {"C10", "C11"} ELSE {"C05", "C14"})
    [] d[1] = "supply" -> {"C02"}
    [] d[1] = "ent" -> (IF d[2] \in {"po", "rq", "aq", "wl", "next"} THEN {"C03"}
                        ELSE IF d[2] = "p" THEN {"C16"} ELSE {"C04", "C05"})
    \* the registry parameters are what admission prices with ("the current ... fees", C06)
    [] d[1] \in {"wrk", "bcn"} -> (IF d[2] = "p" THEN {"C16", "C06"} ELSE IF d[2] = "next" THEN {"C09"} ELSE {})
    [] d[1] = "str" -> (IF d[2] = "p" THEN {"C16"} ELSE {"C10", "C11"})
    [] d[1] = "halted" -> {"C14"}
    [] d[1] = "grants" -> {"C13"}
    [] d[1] = "fgrants" -> {"C05", "C14"}
    [] d[1] = "vest" -> {"C05"}
    [] d[1] = "outs" -> (IF Len(d) >= 3 /\ d[3] = "executed" THEN {"C14"} ELSE {"C09", "C07", "C11"})
    [] OTHER -> {}
\* chain-record diffs carry the path <<k, "ch", i, field>>
\* parameters change at EndBlock only through a proposal, all of whose messages take effect or none (C14): a parameter
\* structure that deviates there is a proposal that was applied in part, or rolled back in the store but not in what the module uses
PathProps(d, ev) == IF d[1] \in {"wrk", "bcn"} /\ d[2] = "ch" THEN (IF Len(d) >= 4 THEN ChFieldProps(d[4]) ELSE {"C09"})
                    ELSE DiffProps(d, ev) \cup (IF Len(d) >= 2 /\ d[2] = "p" /\ ev.a = "EndBlock" THEN {"C14"} ELSE {})

\* an import after which a registration reads records it did not hold before is one entity reading another one's storage
ImportAliasProps(d) == IF d[1] \in {"wrk", "bcn"} /\ d[2] = "ch" /\ Len(d) >= 4 /\ d[4] \in {"recs", "iter"} THEN {"C18"} ELSE {}

\* an import that changes who is entitled to what (whitelist, signer list, owners, grants) lets messages take effect for other parties
ImportEntitlementProps(d) ==
  IF d \in {<<"ent", "wl">>, <<"ent", "p">>, <<"grants">>} \/ (d[1] \in {"wrk", "bcn"} /\ d[2] = "ch" /\ Len(d) >= 4 /\ d[4] = "owner")
  THEN {"C13"} ELSE {}

(* well-formedness of an observed state: the specification's operators index registrations and orders by id, so a state *)
(* whose ids are not consecutive from the starting id cannot be stepped from (it is reported, not crashed on)          *)
WfReg(o, k) == /\ Len(o[k].ch) = o[k].next - o[k].start
               /\ \A i \in DOMAIN o[k].ch : "owner" \in DOMAIN o[k].ch[i] /\ o[k].ch[i].id = o[k].start + i - 1
WfEnt(o) == /\ Len(o.ent.po) = o.ent.next - o.ent.start
            /\ \A i \in DOMAIN o.ent.po : "st" \in DOMAIN o.ent.po[i] /\ o.ent.po[i].id = o.ent.start + i - 1
\* (the specification divides by a stream's flow rate: a stream observed with a rate below 1 cannot be stepped from either)
WfStr(o) == \A k \in DOMAIN o.str.s : o.str.s[k].rate >= 1
Wf(o) == WfReg(o, "wrk") /\ WfReg(o, "bcn") /\ WfEnt(o) /\ WfStr(o)

(* L1: property monitors on one observed state *)
StateMonitors(o) ==
  { <<"C02", "SumBalEqualsSupply">> : x \in { d \in Denoms : o.sumBal[d] # o.supply[d] } }
  \cup (IF ~o.otherDenomsOk THEN {<<"C02", "SumBalEqualsSupplyOtherDenoms">>} ELSE {})
  \cup (IF ~Books(o) THEN {<<"C04", "Books">>} ELSE {})
  \cup (IF ~LockedPlusSpent(o) THEN {<<"C04", "LockedPlusSpent">>} ELSE {})
  \cup (IF ~o.ent.inv THEN {<<"C04", "ModuleInvariant">>} ELSE {})
  \cup (IF o.ent.extraLocked # 0 THEN {<<"C04", "ForeignLockedEntry">>} ELSE {})
  \cup (IF ~QueuesMatchStatus(o) THEN {<<"C03", "QueuesMatchStatus">>} ELSE {})
  \cup (IF ~OncePerSigner(o) THEN {<<"C03", "OncePerSigner">>} ELSE {})
  \cup (IF ~IdsSequential(o) THEN {<<"C03", "IdsSequential">>} ELSE {})
  \cup (IF ~EscrowBacked(o) THEN {<<"C10", "EscrowBacked">>} ELSE {})
  \cup (IF ~o.str.inv THEN {<<"C10", "ModuleInvariant">>} ELSE {})
  \cup (IF ~Sustained(o) THEN {<<"C11", "Sustained">>} ELSE {})
  \* the stream listing panicked (the projection then lacks the streams of accounts it cannot name)
  \cup (IF "listPanic" \in DOMAIN o.str THEN {<<"C20", "StreamListQueryPanics">>} ELSE {})

  \cup (IF ~RegistryOk(o, "wrk") THEN {<<"C08", "RegistryOkWrk">>} ELSE {})
  \cup (IF ~RegistryOk(o, "bcn") THEN {<<"C08", "RegistryOkBcn">>} ELSE {})
  \cup (IF ~StoredParamsValid(o) THEN {<<"C16", "StoredParamsValid">>} ELSE {})

  \cup (IF ~SpendableConsistent(o) THEN {<<"C05", "SpendableConsistent">>} ELSE {})
  \cup (IF "q" \in DOMAIN o
        THEN (IF ~SupplyOfOk(o) THEN {<<"C17", "SupplyOf">>} ELSE {})
             \cup (IF ~StakeSupplyUnchanged(o) THEN {<<"C17", "OtherDenomUnchanged">>} ELSE {})
             \cup (IF ~ForeignSupplyOfOk(o) THEN {<<"C17", "SupplyOfForeignDenomination">>} ELSE {})
             \cup (IF ~EntSupplyOk(o) THEN {<<"C17", "EnterpriseSupply">>} ELSE {})
             \cup (IF ~PagesOk(o) THEN {<<"C17", "TotalSupplyPages">>} ELSE {})
        ELSE {})

\* monitors that need the spec-kept history (aux) next to the observed state
HistMonitors(o, ax) ==
  LET oa == o @@ [aux |-> ax] IN
     (IF ~HistoryOk(oa, "wrk") THEN {<<"C07", "InStateEqualsNewestAcceptedWrk">>, <<"C08", "InStateEqualsNewestAcceptedWrk">>} ELSE {})
  \cup (IF ~HistoryOk(oa, "bcn") THEN {<<"C07", "InStateEqualsNewestAcceptedBcn">>, <<"C08", "InStateEqualsNewestAcceptedBcn">>} ELSE {})
  \cup (IF ~Conserved(oa) THEN {<<"C10", "PerStreamConservation">>} ELSE {})
  \cup (IF ~NotStranded(oa) THEN {<<"C12", "StreamStranded">>} ELSE {})

(* L1: property monitors on one observed step s --ev--> t *)
StepMonitors(s, t, ev) ==
     (IF ~StatusMonotone(s, t) THEN {<<"C03", "StatusMonotone">>} ELSE {})
  \cup (IF ~TerminalFrozen(s, t) THEN {<<"C03", "TerminalFrozen">>} ELSE {})
  \cup (IF ~PoNeverVanish(s, t) THEN {<<"C03", "PoNeverVanish">>} ELSE {})
  \cup (IF PoNeverVanish(s, t) /\ ~PoFieldsImmutable(s, t) THEN {<<"C03", "PoFieldsImmutable">>} ELSE {})
  \cup (IF ~StatusOnlyInBeginBlock(s, t, ev) THEN {<<"C03", "StatusOnlyInBeginBlock">>} ELSE {})
  \cup (IF ~OneBlockDelay(s, t, ev) THEN {<<"C03", "OneBlockDelay">>} ELSE {})
  \cup (IF ~CreditExactlyOnce(s, t, ev) THEN {<<"C03", "CreditExactlyOnce">>} ELSE {})
  \cup (IF ~RaiseOnlyWhitelisted(s, t) THEN {<<"C03", "RaiseOnlyWhitelisted">>} ELSE {})
  \cup (IF PoNeverVanish(s, t) /\ ~DecideOnlyCurrentSignerOnce(s, t) THEN {<<"C03", "DecideOnlyCurrentSignerOnce">>} ELSE {})
  \cup (IF ~C04Step(s, t, ev) THEN {<<"C04", "EscrowOnlyByCompletionOrUnlock">>} ELSE {})
  \cup (IF ~C02Step(s, t, ev) THEN {<<"C02", "MintOnlyByCompletion">>} ELSE {})
  \cup (IF ~C05Step(s, t, ev) THEN {<<"C05", "LockedDropsOnlyByFeeTx">>} ELSE {})
  \cup (IF ~CompletionDoesNotRaiseSpendable(s, t, ev)
        THEN (IF OnlyVestingPurchaserRise(s, t, ev) THEN {<<"C05", "CompletionRaisesSpendableOfVestingPurchaser">>}
              ELSE {<<"C05", "CompletionDoesNotRaiseSpendable">>}) ELSE {})
  \cup (IF ~NoRewrite(s, t) THEN {<<"C07", "NoRewrite">>} ELSE {})
  \cup (IF ~AppendOnly(s, t, ev) THEN {<<"C07", "AppendOnly">>, <<"C08", "AppendOnly">>} ELSE {})
  \cup (IF ~LimitChangesOnlyByOwnerPurchase(s, t, ev) THEN {<<"C08", "LimitChangesOnlyByOwnerPurchase">>} ELSE {})
  \cup (IF ~LimitStartsAtDefault(s, t) THEN {<<"C08", "LimitStartsAtDefault">>} ELSE {})
  \cup (IF ~MetaImmutable(s, t) THEN {<<"C09", "MetaImmutable">>} ELSE {})
  \cup (IF MetaImmutable(s, t) /\ ~OnlyOwnerWrites(s, t, ev) THEN {<<"C09", "OnlyOwnerWrites">>, <<"C13", "OnlyOwnerWrites">>} ELSE {})
  \cup (IF ~NewRegsAreSequential(s, t, ev) THEN {<<"C09", "NewRegsAreSequential">>} ELSE {})
  \cup (IF ~EscrowOnlyByStreamOps(s, t, ev) THEN {<<"C10", "EscrowOnlyByStreamOps">>} ELSE {})
  \cup (IF ~UnsignedChangesNothing(s, t, ev) THEN {<<"C13", "UnsignedChangesNothing">>} ELSE {})
  \cup (IF ~QueriesAndChecksReadOnly(s, t, ev) THEN {<<"C14", "ReadOnlyCallChangedState">>, <<"C20", "ReadOnlyCallChangedState">>} ELSE {})

------------------------------------------------------------------------------
IsReset(ev) == ev.a = "InitChain"
\* "Adopt": a scenario-preparation line (harness event Bulk: thousands of records executed without recording each one).
\* Its observed post-state is adopted as the new starting point; what is in state counts as the acceptance history.
IsAdopt(ev) == ev.a = "Adopt"
AdoptAux(o) == [InitAux EXCEPT !.approved = { o.ent.po[i].id : i \in { j \in DOMAIN o.ent.po : o.ent.po[j].st \in {"accepted", "completed"} } }, !.ever = [wrk |-> [i \in DOMAIN o.wrk.ch |-> o.wrk.ch[i].recs], bcn |-> [i \in DOMAIN o.bcn.ch |-> o.bcn.ch[i].recs]]]

Tag(i, layer, props, detail) == { <<i, layer, p, detail>> : p \in props }

\* the one known disagreement (SDK baseapp, see DESIGN): a tx rejected by its stateless checks, i.e. before the ante
\* handler installs the tx gas meter (gas wanted 0), reports the block context's gas counter as gas used; on a replica
\* restarted since the previous block that counter includes once-per-process work of the SDK's begin-blockers
OnlyGasUsedOfStatelesslyRejectedTx(res) ==
  /\ "missing" \notin DOMAIN res.refA /\ "missing" \notin DOMAIN res.refC
  /\ res.refA = res.refC
  /\ res.raw.code = res.refA.code /\ res.raw.data = res.refA.data /\ res.raw.gasW = res.refA.gasW
  /\ res.raw.gasW = 0 /\ res.raw.code # 0
\* C01: replica agreement, from the reference results the harness recorded next to replica B's own
ReplicaMonitors(ev) ==
     (IF ev.a = "Commit" /\ "refHashA" \in DOMAIN ev.res /\ (ev.res.hash # ev.res.refHashA \/ ev.res.hash # ev.res.refHashC)
      THEN {<<"C01", "AppHashDiffersBetweenReplicas">>} ELSE {})
  \cup (IF ev.a = "DeliverTx" /\ "refA" \in DOMAIN ev.res /\ (ev.res.raw # ev.res.refA \/ ev.res.raw # ev.res.refC)
        THEN (IF OnlyGasUsedOfStatelesslyRejectedTx(ev.res)
              THEN {<<"C01", "GasUsedOfStatelesslyRejectedTxDiffersOnRestartedReplica">>}
              ELSE {<<"C01", "TxResultDiffersBetweenReplicas">>}) ELSE {})
  \cup (IF ev.a = "Restart" /\ "refHashA" \in DOMAIN ev.res /\ ev.res.hash # ev.res.refHashA
        THEN {<<"C01", "RestartHashDiffers">>} ELSE {})
  \cup (IF ev.a = "Restart" /\ ev.res.height # Trace[snap.line].post.height
        THEN {<<"C01", "RestartHeightNotLastCommitted">>} ELSE {})

\* C16 ("after a successful update every fee check, limit check, quorum tally and fee split uses the new values"): once the
\* parameters of a module have been changed in this behaviour (aux.pchanged), a step of that module that deviates from
\* the specification (which uses the stored parameters of the observed pre-state) is also a C16 finding
ModulesOfStep(ev) ==
  IF ev.a = "BeginBlock" THEN {"ent"}
  ELSE IF ev.a # "DeliverTx" THEN {}
  ELSE LET ms == Flatten(ev.args.msgs) IN
       UNION { (IF ms[j].t \in {"WReg", "WRec", "WBuy"} THEN {"wrk"} ELSE {}) \cup (IF ms[j].t \in {"BReg", "BRec", "BBuy"} THEN {"bcn"} ELSE {})
               \cup (IF ms[j].t \in {"Raise", "Decide", "Whitelist"} THEN {"ent"} ELSE {})
               \cup (IF ms[j].t \in {"SCreate", "SClaim", "STopUp", "SRate", "SCancel"} THEN {"str"} ELSE {}) : j \in DOMAIN ms }
ParamTag(ev) == IF ModulesOfStep(ev) \cap aux.pchanged # {} THEN {"C16"} ELSE {}

Mutated(ev) == "mutate" \in DOMAIN ev.args /\ ev.args.mutate # ""

Judge(i) ==
  LET ev  == Trace[i]
      pre == Trace[i - 1].post @@ [aux |-> aux]
      exp == IF ev.a = "Restart" THEN Ok(Trace[snap.line].post @@ [aux |-> snap.aux])
             \* a document edited so that the escrow account's balance is not the locked total (args.mutate) is refused
             ELSE IF ev.a = "ExportImport" THEN (IF ~Mutated(ev) /\ ImportSucceeds(pre) THEN Ok(ImportExport(pre)) ELSE Panic(pre))
             ELSE Step(pre, ev.args)
      evm == ev.args @@ [a |-> ev.a]
  IN UNION { Tag(i, "L2", (IF ev.a = "Restart" THEN {"C01"} ELSE IF ev.a = "ExportImport" THEN {"C15"} \cup PathProps(d, ev) \cup ImportAliasProps(d) \cup ImportEntitlementProps(d) ELSE PathProps(d, ev) \cup ParamTag(ev)), d)
               : d \in (IF ev.a = "ExportImport" /\ ~ev.res.ok THEN {} ELSE StateDiff(exp.st, ev.post)) }
     \cup (IF ev.a = "ExportImport" /\ Mutated(ev)
           THEN (IF "acceptedMutated" \in DOMAIN ev.res THEN {<<i, "L1", "C04", "GenesisWithUnbackedLockedTotalAccepted">>} ELSE {})
           ELSE {})
     \cup (IF ev.a = "ExportImport" /\ ~Mutated(ev)
           THEN (IF ~ev.res.exportOk THEN {<<i, "L1", "C15", "ExportFailed">>} ELSE {})
                \cup (IF ev.res.importPanic THEN {<<i, "L1", "C15", "ImportPanics">>} ELSE {})
                \cup (IF ev.res.ok /\ ~ev.res.invOk THEN {<<i, "L1", "C15", "InvariantBrokenAfterImport">>} ELSE {})
                \cup (IF ev.res.ok /\ ~ev.res.idempotent THEN {<<i, "L1", "C15", "SecondExportDiffers">>} ELSE {})
           ELSE {})
     \cup (IF "qpanic" \in DOMAIN ev.post
           THEN {<<i, "L1", "C17", IF EntDenomChanged(ev.post) THEN "SupplyQueryPanicsAfterEnterpriseDenomChange" ELSE "SupplyQueryPanics">>} ELSE {})
     \cup (IF ev.a = "ListQueries" THEN { <<i, "L1", "C20", d>> : d \in ListFindings(ev.post, ev.res.lists) } ELSE {})
     \cup (IF "postOrig" \in DOMAIN ev /\ ev.a # "ExportImport" /\ ~aux.overcap /\ ~Bisimilar(ev.post, ev.postOrig)
           THEN {<<i, "L1", "C15", "ReimportedChainDiverges">>} ELSE {})
     \cup (IF "resOrig" \in DOMAIN ev /\ ev.resOrig.ok # ev.res.ok THEN {<<i, "L1", "C15", "ReimportedChainResultDiffers">>} ELSE {})
     \cup { <<i, "L1", m[1], m[2]>> : m \in ReplicaMonitors(ev) }
     \cup (IF exp.ok # ev.res.ok THEN {<<i, "L2", "note", <<"res.ok", exp.ok>> >>} ELSE {})
     \cup (IF exp.ok /\ ev.res.ok /\ ev.a = "DeliverTx"
           THEN UNION { Tag(i, "L2", PathProps(d, ev) \cup ParamTag(ev), d) : d \in OutDiff(exp.out, ev.res.outs) } ELSE {})
     \cup { <<i, "L1", m[1], m[2]>> : m \in StateMonitors(ev.post) }
     \cup (IF ev.a \in {"Restart", "ExportImport"} THEN {}    \* not a transition of the chain
           ELSE { <<i, "L1", m[1], m[2]>> : m \in StepMonitors(Trace[i - 1].post, ev.post, evm) })
     \cup { <<i, "L1", m[1], m[2]>> : m \in HistMonitors(ev.post, exp.st.aux) }
     \cup (IF ~FailedTxKeepsState(Trace[i - 1].post, ev.post, evm, ev.res.ok) THEN {<<i, "L1", "C14", "FailedTxKeepsState">>} ELSE {})
     \cup (IF ~FailedTxKeepsStores(Trace[i - 1].post, ev.post, evm, ev.res.ok) THEN {<<i, "L1", "C14", "FailedTxChangedAModuleStore">>} ELSE {})
     \cup (IF ~ReadOnlyKeepsStores(Trace[i - 1].post, ev.post, evm) THEN {<<i, "L1", "C14", "ReadOnlyCallChangedAModuleStore">>} ELSE {})
     \cup (IF "mints" \in DOMAIN ev.res /\ \E d \in Denoms : ev.res.mints[d] - ev.res.burns[d] # ev.post.supply[d] - Trace[i - 1].post.supply[d]
           THEN {<<i, "L1", "C02", "MintBurnEventsMatchSupplyDelta">>} ELSE {})
     \cup (IF "burns" \in DOMAIN ev.res /\ \E d \in Denoms : ev.res.burns[d] # 0 THEN {<<i, "L1", "C02", "UnexpectedBurn">>} ELSE {})
     \* an order completes (mints) although the tally rules, applied to the state observed when it was closed, did not accept it
     \cup (IF ev.a = "BeginBlock" /\ ~ev.post.halted /\ \E k \in Common(Trace[i - 1].post, ev.post) :
                 Trace[i - 1].post.ent.po[k].st # "completed" /\ ev.post.ent.po[k].st = "completed" /\ ev.post.ent.po[k].id \notin aux.approved
           THEN {<<i, "L1", "C02", "MintedForAnOrderTheRulesDidNotAccept">>} ELSE {})
     \cup (IF ev.a = "CheckTx" /\ ev.res.ok /\ ~AdmitIdeal(pre, ev.args)
           THEN {<<i, "L1", "C06", AdmissionKind(pre, ev.args)>>} ELSE {})
     \cup (IF ev.a = "Recheck"
           THEN UNION { IF ev.res.results[k].ok /\ ~AdmitIdeal(pre, ev.res.txs[k])
                        THEN {<<i, "L1", "C06", "StillAdmittedAtRecheck" \o AdmissionKind(pre, ev.res.txs[k])>>,
                              <<i, "L1", "C16", "StillAdmittedAtRecheck" \o AdmissionKind(pre, ev.res.txs[k])>>} ELSE {} : k \in DOMAIN ev.res.results }
           ELSE {})
     \cup (IF ev.a = "CheckTx" /\ ~ev.res.ok /\ AdmitIdeal(pre, ev.args) /\ HasRegistryOps(ev.args.msgs)
           THEN {<<i, "L2", "note", <<"checktx-refused-exact-fee", FALSE>> >>} ELSE {})
     \cup (IF UnentitledAccepted(pre, evm, ev.res.ok) THEN {<<i, "L1", "C13", "UnentitledMessageAccepted">>} ELSE {})
     \* an accept recorded although the rules, applied to the observed state, refuse the decision (a repeated decision, a removed or
     \* never authorised signer, a closed order): approval is what minting rests on (C02), one decision per authorised signer (C03)
     \cup (IF ev.a = "DeliverTx" /\ ev.res.ok /\ ~exp.ok /\ Len(Flatten(ev.args.msgs)) = 1 /\ Flatten(ev.args.msgs)[1].t = "Decide" /\ Flatten(ev.args.msgs)[1].d = "accept"
           THEN {<<i, "L1", "C02", "ApprovalRecordedAgainstTheRules">>, <<i, "L1", "C03", "ApprovalRecordedAgainstTheRules">>} ELSE {})
     \cup (IF UnentitledGroupExec(pre, evm, ev.res) THEN {<<i, "L1", "C13", "UnentitledGroupProposalExecuted">>} ELSE {})
     \cup (IF HasStreamMsg(evm) /\ exp.ok /\ ~ev.res.ok THEN {<<i, "L1", "C12", "StreamOperationRefused">>} ELSE {})
     \cup (IF HasStreamMsg(evm) /\ ev.res.panic THEN {<<i, "L1", "C12", "StreamOperationPanicked">>} ELSE {})

RECURSIVE GetPath(_, _)
GetPath(v, path) == IF path = <<>> THEN v ELSE GetPath(v[Head(path)], Tail(path))
\* diagnostic: with EXPLAIN=<line> in the environment print expected and observed values of that line's diffs
Explain(i) ==
  IF "EXPLAIN" \in DOMAIN IOEnv /\ IOEnv.EXPLAIN = ToString(i) /\ ~IsReset(Trace[i])
  THEN LET ev == Trace[i]
           exp == Step(Trace[i - 1].post @@ [aux |-> aux], ev.args)
       IN /\ PrintT(<<"EXPLAIN", ToJson([line |-> i, ev |-> ev.args, res |-> ev.res, expOk |-> exp.ok, expOut |-> exp.out])>>)
          /\ \A d \in StateDiff(exp.st, ev.post) :
                PrintT(<<"EXPLAIN", ToJson([line |-> i, path |-> d, expected |-> GetPath(exp.st, d), observed |-> GetPath(ev.post, d)])>>)
  ELSE TRUE

\* a step in which a begin/end blocker or commit panicked leaves no meaningful state: only the halt itself is reported
\* extreme amounts: no begin / end blocker or commit panics (the chain keeps producing blocks), a failed transaction leaves
\* every module store byte-identical (but for the eFUND unlock of the pre-execution stage), read-only calls change none
ExtremeJudge(i) ==
  LET ev == Trace[i]
      evm == ev.args @@ [a |-> ev.a]
  IN (IF ev.post.halted \/ (ev.a \in {"BeginBlock", "EndBlock", "Commit"} /\ ev.res.panic) THEN {<<i, "L1", "C14", "HaltedOnExtremeAmounts">>} ELSE {})
     \cup (IF ~FailedTxKeepsStores(Trace[i - 1].post, ev.post, evm, ev.res.ok) THEN {<<i, "L1", "C14", "FailedTxChangedAModuleStore">>} ELSE {})
     \cup (IF ~ReadOnlyKeepsStores(Trace[i - 1].post, ev.post, evm) THEN {<<i, "L1", "C14", "ReadOnlyCallChangedAModuleStore">>} ELSE {})
     \cup (IF ev.a = "ExportImport" /\ (~ev.res.exportOk \/ ev.res.importPanic) THEN {<<i, "L1", "C15", "ExportImportFailsOnExtremeAmounts">>} ELSE {})

JudgeOrHalt(i) ==
  IF ~Wf(Trace[i - 1].post) \/ ~Wf(Trace[i].post)
  THEN \* the ids of the observed state are inconsistent: only the state monitors speak (they report it), the step is not judged
       LET o == Trace[i].post IN
          (IF ~WfReg(o, "wrk") THEN {<<i, "L1", "C09", "WrkChainIdsNotSequential">>, <<i, "L1", "C08", "WrkChainIdsNotSequential">>} ELSE {})
       \cup (IF ~WfReg(o, "bcn") THEN {<<i, "L1", "C09", "BeaconIdsNotSequential">>, <<i, "L1", "C08", "BeaconIdsNotSequential">>} ELSE {})
       \cup (IF ~WfEnt(o) THEN {<<i, "L1", "C03", "PurchaseOrderIdsNotSequential">>} ELSE {})
       \cup (IF ~WfStr(o) THEN {<<i, "L1", "C11", "StreamReportedWithFlowRateBelowOne">>, <<i, "L1", "C20", "StreamReportedWithFlowRateBelowOne">>} ELSE {})
       \* the list queries are judged against the point queries of the same observed state whatever its shape (C20)
       \cup (IF Trace[i].a = "ListQueries" THEN { <<i, "L1", "C20", d>> : d \in ListFindings(o, Trace[i].res.lists) } ELSE {})
       \* what does not depend on the shape of the state is still judged: agreement of the replicas (C01)
       \cup { <<i, "L1", m[1], m[2]>> : m \in ReplicaMonitors(Trace[i]) }
  ELSE IF Trace[i].post.halted
  THEN {<<i, "L1", "C14", IF EntDenomChanged(Trace[i - 1].post) THEN "HaltedAfterEnterpriseDenomChange" ELSE "Halted">>}
  ELSE Judge(i)

TraceInit == l = 1 /\ aux = InitAux /\ bad = {} /\ snap = [line |-> 1, aux |-> InitAux]

TraceNext ==
  /\ l <= Len(Trace)
  /\ l' = l + 1
  /\ Explain(l)
  /\ IF IsReset(Trace[l])
     THEN /\ aux' = [InitAux EXCEPT !.extreme = IsExtreme(Trace[l])]
          /\ snap' = [line |-> l, aux |-> aux']
          /\ bad' = bad \cup { <<l, "L1", m[1], m[2]>> : m \in StateMonitors(Trace[l].post) }
     ELSE IF aux.extreme
     THEN /\ UNCHANGED <<aux, snap>>
          /\ bad' = bad \cup ExtremeJudge(l)
     ELSE IF IsAdopt(Trace[l])
     THEN /\ aux' = AdoptAux(Trace[l].post)
          /\ snap' = [line |-> l, aux |-> aux']
          /\ bad' = bad \cup { <<l, "L1", m[1], m[2]>> : m \in StateMonitors(Trace[l].post) }
     ELSE /\ aux' = IF ~Wf(Trace[l - 1].post) \/ ~Wf(Trace[l].post) THEN aux
                    ELSE IF Trace[l].a = "Restart" THEN snap.aux
                    \* an export that crossed the 20,000-record cap legitimately loses the older records: from then on
                    \* the re-imported chain is no longer compared with the original one record by record
                    ELSE IF Trace[l].a = "ExportImport" THEN [aux EXCEPT !.overcap = @ \/ ~WithinCap(Trace[l - 1].post)]
                    ELSE [Step(Trace[l - 1].post @@ [aux |-> aux], Trace[l].args).st.aux EXCEPT
                             !.pchanged = @ \cup { k \in {"ent", "wrk", "bcn", "str"} : Trace[l].post[k].p # Trace[l - 1].post[k].p }]
          /\ snap' = IF Trace[l].a = "Commit" THEN [line |-> l, aux |-> aux'] ELSE snap
          /\ bad' = bad \cup JudgeOrHalt(l)

TraceSpec == TraceInit /\ [][TraceNext]_vars

\* always TRUE; prints the verdict when the whole trace has been consumed
AtEnd == l = Len(Trace) + 1 => PrintT(<<"VERDICT", Len(Trace), ToJson(bad)>>)
TraceAccepted == TLCGet("stats").diameter = Len(Trace) + 1
=============================================================================
