-------------------------------- MODULE Trace --------------------------------
(* Trace validation: every recorded step of the REAL application             *)
(* ({a, args, res, post} per ABCI call, written by the Go harness) is judged *)
(* against Chain!Step from the OBSERVED pre-state (DESIGN 5.3), and every    *)
(* property monitor is evaluated on every observed state / step pair.        *)
EXTENDS Chain, Json, IOUtils

Trace == ndJsonDeserialize(IOEnv.TRACE_FILE)

VARIABLES l,        \* next line to judge
          aux,      \* spec-kept observation state (gov proposals in flight)
          bad       \* set of findings <<line, layer, name>>
vars == <<l, aux, bad>>

InitAux == [props |-> <<>>, nextProp |-> 1]

------------------------------------------------------------------------------
(* L2: view comparison between the expected and the observed post-state *)
FieldDiff(pfx, e, o, fields) == { <<pfx, f>> : f \in { g \in fields : e[g] # o[g] } }
BalDiff(e, o) == { <<"bal", a, d>> : a \in DOMAIN o.bal, d \in Denoms } \cap
                 { <<"bal", a, d>> : a \in { x \in DOMAIN o.bal : TRUE }, d \in { y \in Denoms : TRUE } } \cap
                 { t \in { <<"bal", a, d>> : a \in DOMAIN o.bal, d \in Denoms } : e.bal[t[2]][t[3]] # o.bal[t[2]][t[3]] }
EntFields == {"p", "next", "po", "rq", "aq", "wl", "locked", "spent", "totLocked", "totSpent"}
ChDiff(k, e, o) ==
  IF Len(e[k].ch) # Len(o[k].ch) THEN {<<k, "ch", "len">>}
  ELSE UNION { FieldDiff(<<k, "ch", i>>, e[k].ch[i], o[k].ch[i], DOMAIN e[k].ch[i]) : i \in DOMAIN e[k].ch }
StateDiff(e, o) ==
  BalDiff(e, o)
  \cup FieldDiff("supply", e.supply, o.supply, Denoms)
  \cup FieldDiff("ent", e.ent, o.ent, EntFields)
  \cup FieldDiff("wrk", e.wrk, o.wrk, {"p", "next"}) \cup ChDiff("wrk", e, o)
  \cup FieldDiff("bcn", e.bcn, o.bcn, {"p", "next"}) \cup ChDiff("bcn", e, o)
  \cup FieldDiff("str", e.str, o.str, {"p", "s"})
  \cup (IF e.halted # o.halted THEN {<<"halted">>} ELSE {})
  \cup (IF e.time # o.time THEN {<<"time">>} ELSE {})

OutDiff(eo, oo) ==
  IF Len(eo) > Len(oo) THEN {<<"outs", "len">>}
  ELSE UNION { FieldDiff(<<"outs", i>>, eo[i], oo[i], (DOMAIN eo[i]) \cap (DOMAIN oo[i])) : i \in DOMAIN eo }

------------------------------------------------------------------------------
(* L1: property monitors on one observed state *)
StateMonitors(o) ==
  { <<"C02", "SumBalEqualsSupply">> : x \in { d \in Denoms : o.sumBal[d] # o.supply[d] } }
  \cup (IF ~o.otherDenomsOk THEN {<<"C02", "SumBalEqualsSupplyOtherDenoms">>} ELSE {})
  \cup (IF ~Books(o) THEN {<<"C04", "Books">>} ELSE {})
  \cup (IF ~LockedPlusSpent(o) THEN {<<"C04", "LockedPlusSpent">>} ELSE {})
  \cup (IF ~o.ent.inv THEN {<<"C04", "ModuleInvariant">>} ELSE {})
  \cup (IF o.ent.extraLocked # 0 THEN {<<"C04", "ForeignLockedEntry">>} ELSE {})
  \cup (IF ~QueuesMatchStatus(o) THEN {<<"C03", "QueuesMatchStatus">>} ELSE {})
  \cup (IF ~OncePerSigner(o) THEN {<<"C03", "OncePerSigner">>} ELSE {})
  \cup (IF ~IdsSequential(o) THEN {<<"C03", "IdsSequential">>} ELSE {})
  \cup (IF o.halted THEN {<<"C14", "Halted">>} ELSE {})
  \cup (IF ~EscrowBacked(o) THEN {<<"C10", "EscrowBacked">>} ELSE {})
  \cup (IF ~o.str.inv THEN {<<"C10", "ModuleInvariant">>} ELSE {})
  \cup (IF ~Sustained(o) THEN {<<"C11", "Sustained">>} ELSE {})
  \cup (IF ~RegistryOk(o, "wrk") THEN {<<"C08", "RegistryOkWrk">>} ELSE {})
  \cup (IF ~RegistryOk(o, "bcn") THEN {<<"C08", "RegistryOkBcn">>} ELSE {})

------------------------------------------------------------------------------
IsReset(ev) == ev.a = "InitChain"

Judge(i) ==
  LET ev  == Trace[i]
      pre == Trace[i - 1].post @@ [aux |-> aux]
      exp == Step(pre, ev.args)
  IN { <<i, "L2", d>> : d \in StateDiff(exp.st, ev.post) }
     \cup (IF exp.ok # ev.res.ok THEN {<<i, "L2", <<"res.ok", exp.ok>> >>} ELSE {})
     \cup (IF exp.ok /\ ev.res.ok /\ ev.a = "DeliverTx" THEN { <<i, "L2", d>> : d \in OutDiff(exp.out, ev.res.outs) } ELSE {})
     \cup { <<i, "L1", m>> : m \in StateMonitors(ev.post) }

TraceInit == l = 1 /\ aux = InitAux /\ bad = {}

TraceNext ==
  /\ l <= Len(Trace)
  /\ l' = l + 1
  /\ IF IsReset(Trace[l])
     THEN /\ aux' = InitAux
          /\ bad' = bad \cup { <<l, "L1", m>> : m \in StateMonitors(Trace[l].post) }
     ELSE /\ aux' = Step(Trace[l - 1].post @@ [aux |-> aux], Trace[l].args).st.aux
          /\ bad' = bad \cup Judge(l)

TraceSpec == TraceInit /\ [][TraceNext]_vars

\* always TRUE; prints the verdict when the whole trace has been consumed
AtEnd == l = Len(Trace) + 1 => PrintT(<<"VERDICT", Len(Trace), ToJson(bad)>>)
TraceAccepted == TLCGet("stats").diameter = Len(Trace) + 1
=============================================================================
