----------------------------- MODULE Enterprise -----------------------------
(* x/enterprise: purchase orders, the raised / accepted queues, whitelist,   *)
(* locked / spent eFUND books, parameters. One operator per handler /        *)
(* begin-blocker phase, in the code's order.                                 *)
(*                                                                           *)
(* st.ent = [p: [signers: Seq(name), min, limit, denom], next, start,        *)
(*           po: Seq([id, pur, amt, den, st, rt, ct, dec: Seq([s, d, t])]),  *)
(*           rq, aq: ascending Seq(id), wl: [acct -> BOOLEAN], wlExtra,      *)
(*           locked, spent: [acct -> Nat], totLocked, totLockedDen, totSpent]*)
EXTENDS Bank, EntArith

PoIdx(st, id) == id - st.ent.start + 1
PoExists(st, id) == id >= st.ent.start /\ id < st.ent.next
PoOf(st, id) == st.ent.po[PoIdx(st, id)]

\* only well-formed entries of the signer list authorise (GetParamEntSignersAsAddressArray)
IsSigner(st, a) == Contains(st.ent.p.signers, a)

\* how many SIGNERS decided d (each signer decides once: the same count as the number of entries in every state the
\* specification reaches; on an observed order that holds two entries of one signer the rules count that signer once)
NumDec(o, d) == Cardinality({ o.dec[i].s : i \in { j \in DOMAIN o.dec : o.dec[j].d = d } })

------------------------------------------------------------------------------
(* MsgUndPurchaseOrder handler *)
Raise(st, pur, amt, den) ==
  IF den # st.ent.p.denom \/ amt <= 0 THEN Fail(st)
  ELSE IF ~(pur \in DOMAIN st.ent.wl /\ st.ent.wl[pur]) THEN Fail(st)
  ELSE LET id == st.ent.next
           o  == [id |-> id, pur |-> pur, amt |-> amt, den |-> den, st |-> "raised",
                  rt |-> NowSec(st), ct |-> -1, dec |-> <<>>]
       IN OkOut([st EXCEPT !.ent.po = Append(@, o), !.ent.rq = Append(@, id), !.ent.next = @ + 1],
                [id |-> id])

(* MsgProcessUndPurchaseOrder handler *)
Decide(st, signer, id, d) ==
  IF ~IsSigner(st, signer) THEN Fail(st)
  ELSE IF ~PoExists(st, id) THEN Fail(st)
  ELSE IF d \notin {"accept", "reject"} THEN Fail(st)
  ELSE LET o == PoOf(st, id) IN
       IF o.st # "raised" THEN Fail(st)
       ELSE IF \E i \in DOMAIN o.dec : o.dec[i].s = signer THEN Fail(st)
       ELSE Ok([st EXCEPT !.ent.po[PoIdx(st, id)].dec =
                   Append(@, [s |-> signer, d |-> (IF d = "accept" THEN "accepted" ELSE "rejected"), t |-> NowSec(st)])])

(* MsgWhitelistAddress handler *)
Whitelist(st, signer, addr, act) ==
  IF ~IsSigner(st, signer) \/ act \notin {"add", "remove"} THEN Fail(st)
  ELSE IF addr \notin DOMAIN st.ent.wl THEN Fail(st)   \* scenario keeps whitelist inside its accounts
  ELSE IF act = "add"
       THEN IF st.ent.wl[addr] THEN Fail(st) ELSE Ok([st EXCEPT !.ent.wl[addr] = TRUE])
       ELSE IF ~st.ent.wl[addr] THEN Fail(st) ELSE Ok([st EXCEPT !.ent.wl[addr] = FALSE])

------------------------------------------------------------------------------
(* MintCoinsAndLock: mint -> send to purchaser -> delegate back to the module -> books *)
MintAndLock(st, a, amt, den) ==
  IF amt = 0 THEN Ok(st)
  ELSE IF den \notin DOMAIN st.supply THEN Panic(st)
  ELSE IF den # st.ent.totLockedDen THEN Panic(st)     \* Coin.Add on different denominations panics
  ELSE LET s1 == Mint(st, "ent", den, amt)              \* net of mint, send, delegate
           s2 == TrackDelegation(s1, a, den, amt)
       IN Ok([s2 EXCEPT !.ent.locked[a] = @ + amt, !.ent.totLocked = @ + amt])

Halt(st) == [st EXCEPT !.halted = TRUE]

(* ProcessAcceptedPurchaseOrders: ascending id = store key order *)
ProcessOne(id, st) ==
  IF st.halted THEN st
  ELSE IF ~PoExists(st, id) \/ PoOf(st, id).st # "accepted" THEN Halt(st)
  ELSE LET o  == PoOf(st, id)
           s1 == [st EXCEPT !.ent.po[PoIdx(st, id)].st = "completed"]
           m  == MintAndLock(s1, o.pur, o.amt, o.den)
       IN IF ~m.ok THEN Halt(st)
          ELSE [m.st EXCEPT !.ent.aq = SeqRemove(@, id)]
ProcessAccepted(st) == FoldL(ProcessOne, st, st.ent.aq)

(* TallyPurchaseOrderDecisions, the stated rule over the integers *)
Close(st, id, status) ==
  [st EXCEPT !.ent.po[PoIdx(st, id)].st = status, !.ent.po[PoIdx(st, id)].ct = NowSec(st),
             !.ent.rq = SeqRemove(@, id)]
WellFormedAddr(st, a) == a \in (DOMAIN st.ent.locked) \cup {"V", "ent", "gov", "grp", "stream", "feecol", "distr"}
TallyOne(id, st) ==
  IF st.halted THEN st
  ELSE IF ~PoExists(st, id) \/ PoOf(st, id).st # "raised" THEN Halt(st)
  ELSE LET o   == PoOf(st, id)
           acc == NumDec(o, "accepted")
           rej == NumDec(o, "rejected")
           P   == st.ent.p
       IN IF NowSec(st) - o.rt >= P.limit /\ acc < P.min THEN Close(st, id, "rejected")
          \* "authorised signers": the well-formed entries of the list (in every state the specification reaches: all of them)
          ELSE IF rej > Len(SelectSeq(P.signers, LAMBDA a : WellFormedAddr(st, a))) - P.min THEN Close(st, id, "rejected")
          \* st.aux.approved (observation variable): the orders the RULES accepted - the only ones that may ever mint (C02)
          ELSE IF acc >= P.min THEN [Close(st, id, "accepted") EXCEPT !.ent.aq = Append(@, id), !.aux.approved = @ \cup {id}]
          ELSE st
Tally(st) == FoldL(TallyOne, st, st.ent.rq)

EntBeginBlocker(st) == Tally(ProcessAccepted(st))

------------------------------------------------------------------------------
(* UnlockCoinsForFees (the unlock decorator's keeper call). fee: [denom -> Nat] *)
FeeOf(fee, d) == IF d \in DOMAIN fee THEN fee[d] ELSE 0
UnlockForFees(st, payer, fee) ==
  LET den    == st.ent.p.denom
      locked == st.ent.locked[payer]
      f      == FeeOf(fee, den)
      take   == UnlockTake(locked, Spendable(st, payer, den), f)      \* EntArith: f, all of `locked`, or nothing
  IN IF f = 0 THEN Panic(st)                           \* Find() miss -> nil amount -> panic, tx refused
     \* when the locked coins cover the fee the code undelegates the WHOLE fee coin set from the module account
     ELSE IF locked >= f /\ \E d \in DOMAIN fee : d # den /\ fee[d] > BalOf(st, "ent", d) THEN Fail(st)
     ELSE IF take = 0 THEN Ok(st)
     ELSE Ok([TrackUndelegation(Move(st, "ent", payer, den, take), payer, den, take)
                EXCEPT !.ent.locked[payer] = @ - take, !.ent.totLocked = Floor0(@ - take),
                       !.ent.spent[payer] = @ + take, !.ent.totSpent = @ + take])

------------------------------------------------------------------------------
(* Parameter validity as the property states it, over the integers *)
WellFormedDenom(d) == d \in {"nund", "other", "stake", "foo"}
EntParamsValid(st, p) ==
  /\ WellFormedDenom(p.denom)
  /\ p.min >= 1 /\ p.limit >= 1
  /\ Len(p.signers) >= 1
  /\ \A i \in DOMAIN p.signers : WellFormedAddr(st, p.signers[i])
  /\ Len(p.signers) >= p.min
\* st.aux.exsig (observation variable): accounts that governance removed from the signer list
SetEntParams(st, p) ==
  IF EntParamsValid(st, p)
  THEN Ok([st EXCEPT !.ent.p = p, !.aux.exsig = (@ \cup Range(st.ent.p.signers)) \ Range(p.signers)])
  ELSE Fail(st)

------------------------------------------------------------------------------
(* State predicates of the properties (C03, C04) *)
StatusSet == {"raised", "accepted", "rejected", "completed"}
QueuesMatchStatus(st) ==
  /\ Range(st.ent.rq) = { st.ent.po[i].id : i \in { j \in DOMAIN st.ent.po : st.ent.po[j].st = "raised" } }
  /\ Range(st.ent.aq) = { st.ent.po[i].id : i \in { j \in DOMAIN st.ent.po : st.ent.po[j].st = "accepted" } }
Books(st) ==
  /\ BalOf(st, "ent", st.ent.totLockedDen) = st.ent.totLocked
  /\ st.ent.totLocked = SumFn(st.ent.locked)
  /\ st.ent.totSpent = SumFn(st.ent.spent)
CompletedSum(st, a) ==
  SeqSum([ i \in DOMAIN st.ent.po |-> IF st.ent.po[i].pur = a /\ st.ent.po[i].st = "completed" THEN st.ent.po[i].amt ELSE 0 ])
LockedPlusSpent(st) == \A a \in DOMAIN st.ent.locked : st.ent.locked[a] + st.ent.spent[a] = CompletedSum(st, a)
OncePerSigner(st) == \A i \in DOMAIN st.ent.po :
   \A j, k \in DOMAIN st.ent.po[i].dec : st.ent.po[i].dec[j].s = st.ent.po[i].dec[k].s => j = k
IdsSequential(st) == /\ Len(st.ent.po) = st.ent.next - st.ent.start
                     /\ \A i \in DOMAIN st.ent.po : st.ent.po[i].id = st.ent.start + i - 1
=============================================================================
