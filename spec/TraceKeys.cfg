SPECIFICATION TraceSpec
CONSTANTS
  W = 8
  Bytes = {0}
  MaxAddrLen = 255
INVARIANT AtEnd
POSTCONDITION TraceAccepted
CHECK_DEADLOCK FALSE
