"""Big-number region of C10 - C12 (DESIGN 0.2 "Numbers"): Apalache finds inputs on which a reading of the Go
arithmetic (spec/mc/ArithAsBuilt.tla) disagrees with the ideal arithmetic (spec/StreamArith.tla); these witnesses and
a boundary table become scenarios; the harness executes them on the real code (`vharness arith`); Apalache judges
every recorded step against StreamArith.tla from the observed pre-state (spec/ArithJudge.tla + a generated
ArithRun.tla holding the recorded vectors as constants)."""
import glob, json, os, shutil, subprocess, time
import vlib
from vlib import Inconclusive, log

QUERIES = ["Agree_ZeroTime", "Agree_Release", "Agree_FeeNoPanic", "Agree_FeeNoPanicPartial"]
DOMAINS = ["Any", "Nund", "Erc"]
GOOD = {"ok", "ok-unrepresentable-zero-time-refused"}
# verdict -> (property, layer)
VERDICT_PROPS = {"WrongRelease": ["C11", "C10"], "WrongClock": ["C11"], "WrongZeroTime": ["C11"], "NotSustained": ["C11"],
                 "Panicked": ["C12"], "Refused": ["C12"], "EscrowMismatch": ["C10"], "WrongLiveness": ["C10", "C12"],
                 "AcceptedAgainstSpec": ["C11"]}


def _ival(x):
    return int(x["#bigint"]) if isinstance(x, dict) else int(x)


def apalache(specdir, module, args, outdir, timeout=600):
    cmd = ["timeout", str(timeout), "apalache-mc", "check"] + args + ["--out-dir=" + outdir, module]
    p = subprocess.run(cmd, cwd=specdir, stdout=subprocess.PIPE, stderr=subprocess.STDOUT, text=True)
    return p.returncode, p.stdout


def witnesses(specdir, scr):
    """One Apalache run per (query, domain), in parallel: a counterexample of Agree_* is a witness input."""
    jobs = []
    for q in QUERIES:
        for d in DOMAINS:
            out = scr.sub("apa-%s-%s" % (q, d))
            cmd = ["timeout", "600", "apalache-mc", "check", "--length=0", "--inv=" + q, "--cinit=CInit" + d, "--out-dir=" + out, "ArithAsBuilt.tla"]
            jobs.append((q, d, out, subprocess.Popen(cmd, cwd=specdir, stdout=subprocess.PIPE, stderr=subprocess.STDOUT, text=True)))
    res = []
    for q, d, out, p in jobs:
        o, _ = p.communicate()
        if "EXITCODE: OK" in o:
            res.append(dict(query=q, domain=d, agree=True))
        elif "EXITCODE: ERROR (12)" in o:
            fs = glob.glob(out + "/ArithAsBuilt.tla/*/violation1.itf.json")
            if not fs:
                raise Inconclusive("apalache reported a witness for %s/%s but wrote no ITF file" % (q, d))
            s = json.load(open(fs[0]))["states"][0]
            res.append(dict(query=q, domain=d, agree=False, w={k: _ival(s[k]) for k in ("dep", "rate", "secs", "num", "den")}))
        else:
            raise Inconclusive("apalache failed on ArithAsBuilt %s/%s:\n%s" % (q, d, o[-3000:]))
        shutil.rmtree(out, ignore_errors=True)
    return res


INDUCTIVE = ["EstablishedByCreate", "PreservedByClaim", "PreservedByTopUp", "PreservedByRate", "PreservedByCancel", "PreservedByTime",
             "ConservedByClaim", "ConservedByCancel", "ClaimBeforeZeroTimeLeavesDeposit"]
VACUITY = ["Vacuity_TopUpWithoutInvariant", "Vacuity_ClaimPaysNothing"]


def obligations(specdir, scr, module, prove, refute):
    """Apalache, unbounded integers, one run per obligation in parallel (--length=0: invariants of the symbolic initial
    states).  Every `prove` obligation must hold, every `refute` one (vacuity probe) must have a counterexample."""
    jobs = []
    for q in prove + refute:
        out = scr.sub("ind-" + q)
        cmd = ["timeout", "600", "apalache-mc", "check", "--length=0", "--inv=" + q, "--out-dir=" + out, module]
        jobs.append((q, out, subprocess.Popen(cmd, cwd=specdir, stdout=subprocess.PIPE, stderr=subprocess.STDOUT, text=True)))
    res = {}
    for q, out, p in jobs:
        o, _ = p.communicate()
        shutil.rmtree(out, ignore_errors=True)
        proved, refuted = "EXITCODE: OK" in o, "EXITCODE: ERROR (12)" in o
        if not (proved or refuted):
            raise Inconclusive("apalache failed on %s %s:\n%s" % (module, q, o[-3000:]))
        if (q in prove and not proved) or (q in refute and not refuted):
            raise Inconclusive("%s: %s %s (model error in the specification, not a verdict on the code)" % (
                module, q, "has a counterexample" if q in prove else "is not violated: vacuous check"))
        res[q] = "proved for all integers" if proved else "violated as required (the check is not vacuous)"
    return res


def inductive(specdir, scr):
    """The invariant IndInv (Sustained + well-formedness) of mc/ArithInductive.tla is established by create and preserved
    by every operation and by the passing of time; each release conserves coins."""
    return obligations(specdir, scr, "ArithInductive.tla", INDUCTIVE, VACUITY)


LEDGER = ["BooksAfterComplete", "BooksAfterPayFee", "FloorNeverApplies", "DropsByMinFeeLocked", "NothingTakenIfUncovered"]
LEDGER_VACUITY = ["Vacuity_WrongTake"]


def ledger_inductive(specdir, scr):
    """mc/LedgerInductive.tla: the locked-eFUND books balance after a completion and after a fee payment for all amounts."""
    return obligations(specdir, scr, "LedgerInductive.tla", LEDGER, LEDGER_VACUITY)


NS = 1000000000


def scenario_of_witness(i, r):
    w = r["w"]
    dur = w["dep"] // w["rate"]
    steps = [dict(op="create", dtNs=str(NS), amt=str(w["dep"]), rate=str(w["rate"]))]
    first = w["secs"] if 0 < w["secs"] < dur else min(5, dur)
    steps.append(dict(op="claim", dtNs=str(first * NS)))
    steps.append(dict(op="claim", dtNs=str(7 * NS + 500000000)))
    steps.append(dict(op="cancel", dtNs=str(3 * NS)))
    return dict(id="w%d-%s-%s" % (i, r["query"], r["domain"]), bal=str(w["dep"] * 3), feeNum=w["num"], feeDen=w["den"], steps=steps)


def boundary_scenarios(tier, rng):
    """Boundary table: deposits x rates x elapsed times x fee rates around 2^63 / 2^64 / 292 years / nanosecond
    boundaries, each as create ; claim ; [top-up | rate change] ; claim ; cancel."""
    two63, two64 = 2 ** 63, 2 ** 64
    year = 31557600
    deps = [6000, 10 ** 9 * 120, 18446744074, 9300000000, two63 - 1, two63, two64, 10 ** 21, 10 ** 24, 2 ** 100, 2 ** 200]
    rates = [1, 2, 7, 10 ** 6, 10 ** 9, 10 ** 16, 10 ** 18, two63 // 4, two63 - 1]
    fees = [(0, 1), (1, 100), (1, 3), (1, 1), (999, 1000)]
    elapsed = [0, 999999999, NS, NS + 999999999, 59 * NS, 16777216 * NS + 999999999, 400 * 86400 * NS + 999999999,
               (2 ** 33) * NS, 293 * year * NS, 1000 * year * NS]
    out, n = [], 0
    # always: stream durations (create, top-up extension, remainder after a rate change) at every point where a
    # nanosecond product of the duration wraps a signed or unsigned 64-bit integer: k x 2^63 / 10^9 seconds, k = 1..6
    for k in range(1, 7):
        secs = (k * two63 + NS - 1) // NS
        for r in (1, 2):
            d = secs * r
            mid = [dict(op="topup", dtNs=str(NS), amt=str(d)), dict(op="rate", dtNs=str(2 * NS + 1), rate=str(r + 1))][k % 2]
            steps = [dict(op="create", dtNs=str(NS), amt=str(d), rate=str(r)), dict(op="claim", dtNs=str(10 * NS)), mid,
                     dict(op="claim", dtNs=str(20 * NS)), dict(op="cancel", dtNs=str(5 * NS))]
            out.append(dict(id="w%d" % n, bal=str(d * 4 + 1000), feeNum=1, feeDen=100, steps=steps))
            n += 1
        # a small stream whose top-up alone carries the wrapping duration; a rate change that leaves it as remainder
        steps = [dict(op="create", dtNs=str(NS), amt="600", rate="3"), dict(op="topup", dtNs=str(NS), amt=str(secs * 3)), dict(op="claim", dtNs=str(7 * NS)),
                 dict(op="rate", dtNs=str(NS), rate="1"), dict(op="claim", dtNs=str(9 * NS)), dict(op="cancel", dtNs=str(5 * NS))]
        out.append(dict(id="w%d" % n, bal=str(secs * 12 + 1000), feeNum=0, feeDen=1, steps=steps))
        n += 1
    combos = [(d, r) for d in deps for r in rates if d // r >= 60]
    rng.shuffle(combos)
    cap = 40 if tier == "quick" else 400
    for d, r in combos[:cap]:
        f = fees[n % len(fees)]
        e1 = elapsed[(n * 3 + 1) % len(elapsed)]
        e2 = elapsed[(n * 5 + 2) % len(elapsed)]
        mid = [dict(op="topup", dtNs=str(NS), amt=str(max(1, d // 7))), dict(op="rate", dtNs=str(2 * NS + 1), rate=str(max(1, r // 3 + 1))),
               dict(op="topup", dtNs=str(e2), amt=str(r * 61))][n % 3]
        steps = [dict(op="create", dtNs=str(NS), amt=str(d), rate=str(r)), dict(op="claim", dtNs=str(e1)), mid,
                 dict(op="claim", dtNs=str(e2)), dict(op="cancel", dtNs=str(5 * NS))]
        out.append(dict(id="b%d" % n, bal=str(d * 4 + r * 100), feeNum=f[0], feeDen=f[1], steps=steps))
        n += 1
    return out


def _st(x):
    return "[dep |-> %s, rate |-> %s, last |-> %s, dzt |-> %s, live |-> %s]" % (x["dep"], x["rate"], x["last"], x["dzt"], "TRUE" if x["live"] else "FALSE")


def gen_run_module(recs, path):
    b = lambda x: "TRUE" if x else "FALSE"
    out = ["---- MODULE ArithRun ----", "EXTENDS ArithJudge", "VARIABLE", "  \\* @type: Seq(Str);", "  vs"]
    for i, r in enumerate(recs):
        rec = ('[op |-> "%s", amt |-> %s, rate |-> %s, now |-> %s, num |-> %d, den |-> %d, funds |-> %s, pre |-> %s, post |-> %s, ok |-> %s, '
               'panic |-> %s, gainReceiver |-> %s, gainFees |-> %s, gainSender |-> %s, gainEscrow |-> %s]') % (
            r["op"], r["amt"], r["rate"], r["now"], int(r["feeNum"]), max(1, int(r["feeDen"])), r["funds"], _st(r["pre"]), _st(r["post"]),
            b(r["res"]["ok"]), b(r["res"]["panic"]), r["gain"]["A2"], r["gain"]["feecol"], r["gain"]["A1"], r["gain"]["stream"])
        out.append("\\* @type: $vec;")
        out.append("V%d == %s" % (i + 1, rec))
    out.append("Init == vs = <<%s>>" % ", ".join("Verdict(V%d)" % (i + 1) for i in range(len(recs))))
    out.append("Next == UNCHANGED vs")
    out.append("AllOk == \\A k \\in DOMAIN vs : vs[k] \\in GoodVerdicts")
    out.append("====")
    open(path, "w").write("\n".join(out) + "\n")


def judge(specdir, rec_path, scr, chunk=150):
    """Apalache evaluates Verdict on every recorded step; returns the list of verdict strings."""
    recs = [json.loads(l) for l in open(rec_path) if l.strip()]
    verdicts = []
    for c0 in range(0, len(recs), chunk):
        part = recs[c0:c0 + chunk]
        d = scr.sub("judge")
        for f in ("StreamArith.tla", "ArithJudge.tla"):
            shutil.copy(os.path.join(specdir, f), d)
        gen_run_module(part, os.path.join(d, "ArithRun.tla"))
        rc, o = apalache(d, "ArithRun.tla", ["--length=0", "--inv=AllOk"], os.path.join(d, "out"))
        if "EXITCODE: OK" in o:
            verdicts += ["ok"] * len(part)
        elif "EXITCODE: ERROR (12)" in o:
            fs = glob.glob(d + "/out/ArithRun.tla/*/violation1.itf.json")
            if not fs:
                raise Inconclusive("apalache judge: no ITF file")
            vs = json.load(open(fs[0]))["states"][0]["vs"]
            if len(vs) != len(part):
                raise Inconclusive("apalache judge: %d verdicts for %d vectors" % (len(vs), len(part)))
            verdicts += vs
        else:
            raise Inconclusive("apalache judge failed:\n" + o[-3000:])
        shutil.rmtree(d, ignore_errors=True)
    return recs, verdicts


def run(pid, tier, scr, hbin, specdir, cov, scenarios=None):
    """The whole stage; returns findings [(line, layer, property, detail, record)] for property pid."""
    import random
    t0 = time.time()
    rng = random.Random(vlib.seed())
    info = dict()
    if scenarios is None:
        info["apalache_inductive"] = inductive(specdir, scr)
        ws = witnesses(specdir, scr)
        info["apalache_queries"] = [dict(query=w["query"], domain=w["domain"], outcome="agree (no witness)" if w["agree"] else "witness", witness=w.get("w")) for w in ws]
        scenarios = [scenario_of_witness(i, w) for i, w in enumerate(ws) if not w["agree"]]
        scenarios += boundary_scenarios(tier, rng)
    d = scr.sub("arith")
    inp, out = os.path.join(d, "scenarios.json"), os.path.join(d, "rec.ndjson")
    json.dump(scenarios, open(inp, "w"))
    vlib.harness(hbin, ["arith", "-in", inp, "-out", out], timeout=3000)
    recs, verdicts = judge(specdir, out, scr)
    findings = []
    for i, (r, v) in enumerate(zip(recs, verdicts)):
        if v in GOOD:
            continue
        for prop in VERDICT_PROPS.get(v, ["note"]):
            if prop == "C12" and r["op"] not in ("claim", "cancel", "topup"):
                continue
            findings.append((i + 1, "L2A", prop, v, r))
    info.update(scenarios=len(scenarios), steps_judged=len(recs), verdicts={v: verdicts.count(v) for v in sorted(set(verdicts))}, wall_s=round(time.time() - t0, 1))
    cov["arith"] = info
    cov["steps_validated"] = cov.get("steps_validated", 0) + len(recs)
    cov["traces_validated_against_impl"] = cov.get("traces_validated_against_impl", 0) + len(scenarios)
    log("[arith] %d scenarios, %d steps judged by Apalache, verdicts %s, %.0fs" % (len(scenarios), len(recs), info["verdicts"], time.time() - t0))
    return out, scenarios, [f for f in findings if f[2] == pid], findings
