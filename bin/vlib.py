#!/usr/bin/env python3
"""Shared machinery of /verif/bin/check: build the Go harness from /repo's current tree, run TLC on
the specification (exhaustive, simulation, trace validation), run the harness, classify findings,
write evidence.  Verdict rules: DESIGN.md section 6."""
import json, os, re, shutil, subprocess, sys, tempfile, time, hashlib

ROOT = os.path.dirname(os.path.dirname(os.path.abspath(__file__)))
REPO = os.environ.get("VERIF_REPO", "/repo")
SPEC = os.path.join(ROOT, "spec")
BUILD = os.path.join(ROOT, "build")
HARNESS_SRC = os.path.join(ROOT, "harness")
EVID = os.environ.get("VERIF_EVIDENCE_DIR") or os.path.join(ROOT, "evidence")
KNOWN = os.path.join(ROOT, "known_findings.json")

GOENV = dict(GOFLAGS="-mod=mod", GOPROXY="off", GOSUMDB="off", GOTOOLCHAIN="local")


class Inconclusive(Exception):
    pass


def log(*a):
    print(*a, file=sys.stderr, flush=True)


def seed():
    try:
        return int(os.environ.get("VERIF_SEED", "1"))
    except ValueError:
        return 1


class Scratch:
    """run-scoped scratch directory (TLC metadirs, recordings, DBs); removed on exit unless kept."""

    def __init__(self, tag):
        self.dir = tempfile.mkdtemp(prefix="verif-%s-" % tag)
        self.n = 0

    def sub(self, name):
        self.n += 1
        d = os.path.join(self.dir, "%02d-%s" % (self.n, name))
        os.makedirs(d)
        return d

    def cleanup(self):
        shutil.rmtree(self.dir, ignore_errors=True)


def build_harness():
    """Build the harness against REPO's current working tree (module copy with the replace line
    pointed at REPO; incremental thanks to the Go build cache)."""
    os.makedirs(BUILD, exist_ok=True)
    src = os.path.join(BUILD, "src-" + hashlib.sha1(REPO.encode()).hexdigest()[:8])
    if os.path.isdir(src):
        shutil.rmtree(src)
    shutil.copytree(HARNESS_SRC, src, ignore=shutil.ignore_patterns("vharness", "go.sum"))
    gm = open(os.path.join(src, "go.mod")).read()
    gm = gm.replace("=> /repo", "=> " + REPO)
    open(os.path.join(src, "go.mod"), "w").write(gm)
    shutil.copy(os.path.join(REPO, "go.sum"), os.path.join(src, "go.sum"))
    out = os.path.join(BUILD, "vharness-" + hashlib.sha1(REPO.encode()).hexdigest()[:8])
    env = dict(os.environ)
    env.update(GOENV)
    t0 = time.time()
    p = subprocess.run(["go", "build", "-tags", "verif", "-o", out, "."], cwd=src, env=env,
                       stdout=subprocess.PIPE, stderr=subprocess.STDOUT, text=True)
    if p.returncode != 0:
        raise Inconclusive("harness build failed:\n" + p.stdout[-4000:])
    log("[build] harness built from %s in %.1fs" % (REPO, time.time() - t0))
    return out


def spec_copy(scr):
    d = scr.sub("spec")
    for root, _, files in os.walk(SPEC):
        for f in files:
            if f.endswith((".tla", ".cfg")):
                shutil.copy(os.path.join(root, f), os.path.join(d, f))
    return d


def run_tlc(specdir, module, cfg, scr, args=(), env=None, timeout=600, workers=1, heap=None):
    meta = scr.sub("meta")
    e = dict(os.environ)
    if env:
        e.update(env)
    cmd = ["timeout", str(timeout), "tlc", "-workers", str(workers), "-metadir", meta, "-config", cfg] + list(args) + [module]
    t0 = time.time()
    p = subprocess.run(cmd, cwd=specdir, env=e, stdout=subprocess.PIPE, stderr=subprocess.STDOUT, text=True)
    shutil.rmtree(meta, ignore_errors=True)
    return p.returncode, p.stdout, time.time() - t0


def parse_counts(out):
    m = re.search(r"(\d+) states generated, (\d+) distinct states found", out)
    if not m:
        return None
    return int(m.group(1)), int(m.group(2))


def mc_exhaustive(specdir, module, cfg, scr, workers=16, timeout=900, args=()):
    """TLC exhaustive run of a bounded configuration of the (ideal) specification."""
    rc, out, dt = run_tlc(specdir, module, cfg, scr, workers=workers, timeout=timeout, args=args)
    counts = parse_counts(out)
    ok = "Model checking completed. No error has been found." in out
    if not ok or counts is None:
        tail = "\n".join(l for l in out.splitlines() if not l.startswith(("Semantic", "Linting", "Parsing")))[-6000:]
        if rc == 124:
            raise Inconclusive("TLC timeout on %s/%s after %ds" % (module, cfg, timeout))
        # an error on the ideal specification is a model error until reproduced on the code (DESIGN 6)
        raise Inconclusive("TLC reported an error on the specification %s/%s (model error, not a verdict):\n%s" % (module, cfg, tail))
    log("[mc] %s/%s: %d generated, %d distinct states, %.1fs" % (module, cfg, counts[0], counts[1], dt))
    mc_exhaustive.goals = parse_goals(out)
    return dict(module=module, cfg=cfg, generated=counts[0], distinct=counts[1], wall_s=round(dt, 1),
                goal_labels_reached=sorted(mc_exhaustive.goals))


def parse_goals(out):
    """Coverage-goal behaviours printed by the GoalEmit action property of a bounded model (spec/Goals.tla):
    label -> list of behaviours (shortest first)."""
    goals = {}
    for m in re.finditer(r'<<"GOAL", "([^"]*)", "(.*)">>', out):
        goals.setdefault(m.group(1), []).append(json.loads(unquote_tla_string(m.group(2))))
    for l in goals:
        goals[l].sort(key=len)
    return goals


EMPTY_BLOCK = [{"a": "BeginBlock", "dt": 1000}, {"a": "EndBlock"}, {"a": "Commit"}]
STREAM_PAIRS = [("A2", "A1"), ("A3", "A1"), ("A3", "A2")]


def goal_tail(module, beh):
    """Close the block a goal behaviour ends in and append a module-specific tail, so that the consequences of the
    situation (completion in the next block, the next release of a stream, ...) are executed and judged too."""
    tail = []
    if beh[-1]["a"] in ("BeginBlock", "DeliverTx"):
        tail += [{"a": "EndBlock"}, {"a": "Commit"}]
    if module.startswith("MC_Str"):
        claims = [{"a": "DeliverTx", "msgs": [{"t": "SClaim", "sender": s, "receiver": r}]} for r, s in STREAM_PAIRS]
        cancels = [{"a": "DeliverTx", "msgs": [{"t": "SCancel", "sender": s, "receiver": r}]} for r, s in STREAM_PAIRS]
        tail += [{"a": "BeginBlock", "dt": 3000}] + claims + [{"a": "EndBlock"}, {"a": "Commit"}]
        tail += [{"a": "BeginBlock", "dt": 17500}] + claims + [{"a": "EndBlock"}, {"a": "Commit"}]
        mods = [{"a": "DeliverTx", "msgs": [{"t": "STopUp", "sender": s, "receiver": r, "dep": 7, "denom": "nund"}]} for r, s in STREAM_PAIRS] + \
               [{"a": "DeliverTx", "msgs": [{"t": "SRate", "sender": s, "receiver": r, "rate": 2}]} for r, s in STREAM_PAIRS]
        tail += [{"a": "BeginBlock", "dt": 1500}] + mods + [{"a": "EndBlock"}, {"a": "Commit"}]
        tail += [{"a": "BeginBlock", "dt": 2000}] + claims + cancels + [{"a": "EndBlock"}, {"a": "Commit"}]
    elif module.startswith("MC_Grp"):
        def gx(member, *msgs):
            return {"a": "DeliverTx", "msgs": [{"t": "GExec", "member": member, "msgs": list(msgs)}]}
        def wrec(h):
            return {"t": "WRec", "owner": "grp", "id": 1, "h": h, "bh": "b", "ph": "", "h1": "", "h2": "", "h3": ""}
        claims = [{"a": "DeliverTx", "msgs": [{"t": "SClaim", "sender": "grp", "receiver": "A3"}]},
                  gx("A2", {"t": "SClaim", "sender": "A1", "receiver": "grp"})]
        tail += [{"a": "BeginBlock", "dt": 3000}] + claims + [gx("A1", wrec(50)), gx("A1", {"t": "BRec", "owner": "grp", "id": 1, "hash": "y", "subt": 9}),
                 gx("A2", {"t": "BBuy", "owner": "grp", "id": 1, "n": 1}), gx("A2", {"t": "WBuy", "owner": "grp", "id": 1, "n": 1}),
                 {"a": "DeliverTx", "msgs": [{"t": "Decide", "signer": "A1", "id": 1, "d": "accept"}]}, {"a": "EndBlock"}, {"a": "Commit"}]
        tail += [{"a": "BeginBlock", "dt": 17500}] + claims + [gx("A2", wrec(51)), gx("A1", {"t": "Raise", "pur": "grp", "amt": 7, "denom": "nund"}),
                 {"a": "EndBlock"}, {"a": "Commit"}]
        tail += [{"a": "BeginBlock", "dt": 2000}, gx("A1", {"t": "SCancel", "sender": "grp", "receiver": "A3"}),
                 {"a": "DeliverTx", "msgs": [{"t": "SCancel", "sender": "A1", "receiver": "grp"}]}, {"a": "EndBlock"}, {"a": "Commit"}] + EMPTY_BLOCK
    elif module.startswith("MC_Reg"):
        recs = [{"a": "DeliverTx", "fee": {"nund": 1}, "msgs": [{"t": "BRec", "owner": "A1", "id": 1, "hash": "y", "subt": 9}]}]
        regs = [{"a": "DeliverTx", "fee": {"nund": 4}, "msgs": [{"t": "BReg", "owner": "A2", "moniker": "m2", "name": "n2"}]},
                {"a": "DeliverTx", "fee": {"nund": 4}, "msgs": [{"t": "WReg", "owner": "A2", "moniker": "m2", "name": "n2", "genesis": "g", "type": "t"}]}]
        tail += [{"a": "BeginBlock", "dt": 1000}] + recs + [{"a": "EndBlock"}, {"a": "Commit"}]
        tail += [{"a": "BeginBlock", "dt": 1000}] + regs + recs + [{"a": "EndBlock"}, {"a": "Commit"}]
        # one more slot for the first registration of each module (what an import must leave purchasable)
        buys = [{"a": "DeliverTx", "fee": {"nund": 1}, "msgs": [{"t": "BBuy", "owner": "A1", "id": 1, "n": 1}]},
                {"a": "DeliverTx", "fee": {"nund": 1}, "msgs": [{"t": "WBuy", "owner": "A1", "id": 1, "n": 1}]}]
        wrecs = [{"a": "DeliverTx", "fee": {"nund": 1}, "msgs": [{"t": "WRec", "owner": "A1", "id": 1, "h": h, "bh": "b", "ph": "", "h1": "", "h2": "", "h3": ""}]} for h in (7771, 7772)]
        tail += [{"a": "BeginBlock", "dt": 1000}] + buys + recs + wrecs + [{"a": "EndBlock"}, {"a": "Commit"}]
    else:
        # a new order after whatever happened (its id must be the next unused one), accepted by a signer, then completed
        txs = [{"a": "DeliverTx", "msgs": [{"t": "Raise", "pur": "A3", "amt": 4, "denom": "nund"}]}]
        txs += [{"a": "DeliverTx", "msgs": [{"t": "Decide", "signer": "A1", "id": k, "d": "accept"}]} for k in (1, 2, 3)]
        txs += [{"a": "DeliverTx", "msgs": [{"t": "Whitelist", "signer": "A1", "addr": "A4", "act": "add"}]},
                {"a": "DeliverTx", "msgs": [{"t": "Raise", "pur": "A4", "amt": 2, "denom": "nund"}]}]
        tail += [{"a": "BeginBlock", "dt": 1000}] + txs + [{"a": "EndBlock"}, {"a": "Commit"}] + EMPTY_BLOCK * 3
        if module.startswith("MC_Fee"):
            # the purchaser pays a registry fee out of what was minted and locked for it
            tail += [{"a": "BeginBlock", "dt": 1000}, {"a": "DeliverTx", "fee": {"nund": 12}, "msgs": [{"t": "BReg", "owner": "A3", "moniker": "mt", "name": "nt"}]},
                     {"a": "EndBlock"}, {"a": "Commit"}]
    return beh + tail


def goal_export_variants(behs, glens, n):
    """For each goal behaviour (with its tail): a genesis export + re-import inserted after the Commit of the block in
    which the goal step happened (and after the next n-1 Commits); at least one block follows on both chains."""
    out = []
    for b, gl in zip(behs, glens):
        commits = [i for i, ev in enumerate(b) if ev["a"] == "Commit" and i >= gl - 1]
        for i in commits[:-1][:n]:
            out.append(b[:i + 1] + [{"a": "ExportImport"}] + b[i + 1:])
    return out


def goal_schedules(goals, module, per_label):
    """Up to per_label shortest behaviours per label, deduplicated, each with its tail."""
    out, seen, used = [], set(), {}
    goal_schedules.glens = []
    for label in sorted(goals):
        n = 0
        for beh in goals[label]:
            key = json.dumps(beh, sort_keys=True)
            if key in seen:
                n += 1          # already scheduled for another label: counts for this one too
                used[label] = used.get(label, 0) + 1
                if n >= per_label:
                    break
                continue
            seen.add(key)
            out.append(goal_tail(module, beh))
            goal_schedules.glens.append(len(beh))
            used[label] = used.get(label, 0) + 1
            n += 1
            if n >= per_label:
                break
    return out, used


def unquote_tla_string(s):
    # TLC prints strings with \" and \\ escapes
    return json.loads('"' + s + '"')


def sim_schedules(specdir, module, cfg, scr, num, depth, sd, procs=4, timeout=600):
    """TLC -simulate on a model whose Emit invariant prints complete behaviours as JSON."""
    procs = max(1, min(procs, num))
    per = (num + procs - 1) // procs
    ps = []
    for i in range(procs):
        meta = scr.sub("simmeta")
        cmd = ["timeout", str(timeout), "tlc", "-workers", "1", "-simulate", "num=%d" % per, "-depth", str(depth),
               "-seed", str(sd * 7919 + i), "-metadir", meta, "-config", cfg, module]
        ps.append((subprocess.Popen(cmd, cwd=specdir, stdout=subprocess.PIPE, stderr=subprocess.STDOUT, text=True), meta))
    behaviours, seen = [], set()
    for p, meta in ps:
        out, _ = p.communicate()
        shutil.rmtree(meta, ignore_errors=True)
        if "Error:" in out and "TRACE" not in out:
            raise Inconclusive("TLC simulation failed on %s/%s:\n%s" % (module, cfg, out[-3000:]))
        if re.search(r"Error: (Invariant|Action property|The behavior)", out) or "is violated" in out:
            raise Inconclusive("TLC simulation found an error on the specification %s/%s (model error):\n%s" % (module, cfg, out[-5000:]))
        for m in re.finditer(r'<<"TRACE", "(.*)">>', out):
            js = unquote_tla_string(m.group(1))
            h = hashlib.sha1(js.encode()).hexdigest()
            if h in seen:
                continue
            seen.add(h)
            behaviours.append(json.loads(js))
    log("[sim] %s/%s: %d distinct behaviours" % (module, cfg, len(behaviours)))
    return behaviours


def bfs_schedules(specdir, module, cfg, scr, timeout=600):
    """TLC breadth-first run of a (small) sweep specification whose Emit invariant prints every complete behaviour."""
    rc, out, dt = run_tlc(specdir, module, cfg, scr, workers=1, timeout=timeout)
    if "Model checking completed. No error has been found." not in out:
        raise Inconclusive("TLC sweep failed on %s/%s (model error):\n%s" % (module, cfg, out[-5000:]))
    behaviours, seen = [], set()
    for m in re.finditer(r'<<"TRACE", "(.*)">>', out):
        js = unquote_tla_string(m.group(1))
        h = hashlib.sha1(js.encode()).hexdigest()
        if h not in seen:
            seen.add(h)
            behaviours.append(json.loads(js))
    log("[sweep] %s/%s: %d behaviours" % (module, cfg, len(behaviours)))
    c = parse_counts(out) or (0, 0)
    bfs_schedules.last = dict(module=module, cfg=cfg, generated=c[0], distinct=c[1], wall_s=round(dt, 1), behaviours=len(behaviours))
    return behaviours


def harness(bin_, args, timeout=1200):
    p = subprocess.run([bin_] + args, stdout=subprocess.PIPE, stderr=subprocess.PIPE, text=True, timeout=timeout)
    if p.returncode != 0:
        raise Inconclusive("harness %s failed (rc %d): %s" % (args[:1], p.returncode, p.stderr[-3000:]))
    return p.stdout


def record_behaviours(bin_, behaviours, scr, name="beh"):
    d = scr.sub(name)
    inp, out = os.path.join(d, "behaviours.json"), os.path.join(d, "rec.ndjson")
    json.dump(behaviours, open(inp, "w"))
    harness(bin_, ["run", "-in", inp, "-out", out])
    return out, inp


def record_random(bin_, profile, sd, steps, runs, scr):
    d = scr.sub("rand-" + profile)
    out = os.path.join(d, "rec.ndjson")
    harness(bin_, ["random", "-profile", profile, "-seed", str(sd), "-steps", str(steps), "-runs", str(runs), "-out", out])
    return out


def count_lines(path):
    with open(path) as f:
        return sum(1 for _ in f)


def validate(specdir, rec, scr, explain=None, timeout=900, module="Trace.tla", cfg="Trace.cfg"):
    """TLC trace validation of one recording; returns (nlines, findings[list of [line, layer, prop, detail]], explains)."""
    env = {"TRACE_FILE": rec}
    if explain is not None:
        env["EXPLAIN"] = str(explain)
    rc, out, dt = run_tlc(specdir, module, cfg, scr, env=env, timeout=timeout)
    m = re.search(r'<<"VERDICT", (\d+), "(.*)">>', out)
    ok = "Model checking completed. No error has been found." in out
    if not m or not ok:
        tail = "\n".join(l for l in out.splitlines() if not l.startswith(("Semantic", "Linting", "Parsing")))[-5000:]
        raise Inconclusive("trace validation did not complete on %s:\n%s" % (rec, tail))
    n = int(m.group(1))
    findings = json.loads(unquote_tla_string(m.group(2)))
    explains = [json.loads(unquote_tla_string(x)) for x in re.findall(r'<<"EXPLAIN", "(.*)">>', out)]
    log("[trace] %s: %d lines, %d findings, %.1fs" % (os.path.basename(os.path.dirname(rec)), n, len(findings), dt))
    return n, findings, explains


def load_known():
    if not os.path.exists(KNOWN):
        return []
    return json.load(open(KNOWN)).get("findings", [])


def write_evidence(pid, tier, level, coverage, wall, violations, assumptions):
    os.makedirs(EVID, exist_ok=True)
    ev = dict(property_id=pid, tier=tier, seed=seed(), level=level, coverage=coverage,
              assumptions=assumptions, wall_s=round(wall, 1), violations=violations)
    tmp = os.path.join(EVID, pid + ".json.tmp")
    json.dump(ev, open(tmp, "w"), indent=1)
    os.replace(tmp, os.path.join(EVID, pid + ".json"))


def save_replay(pid, rec_path, line, extra):
    """Keep the offending recording prefix (up to and including the violating line's behaviour)."""
    d = os.environ.get("VERIF_REPLAY_DIR") or os.path.join(ROOT, "replays")
    os.makedirs(d, exist_ok=True)
    out = os.path.join(d, "%s-seed%d.ndjson" % (pid, seed()))
    lines = open(rec_path).read().splitlines()
    # the behaviour containing `line` (1-based): from the last InitChain at or before it
    start = 0
    for i in range(min(line, len(lines)) - 1, -1, -1):
        if lines[i].startswith(('{"a":"InitChain"', '{"a":"Reset"', '{"a":"Convert"')):
            start = i
            break
    with open(out, "w") as f:
        for l in lines[start:line]:
            f.write(l + "\n")
    json.dump(extra, open(out + ".why.json", "w"), indent=1)
    return out


def save_arith_replay(pid, scenario):
    d = os.environ.get("VERIF_REPLAY_DIR") or os.path.join(ROOT, "replays")
    os.makedirs(d, exist_ok=True)
    out = os.path.join(d, "%s-seed%d.arith.json" % (pid, seed()))
    json.dump([scenario], open(out, "w"), indent=1)
    return out


def schedule_of_recording(path):
    """The behaviour (list of steps) a recording was produced from."""
    beh = []
    for l in open(path):
        if l.strip():
            r = json.loads(l)
            beh.append(r["args"])
    return beh
