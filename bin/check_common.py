"""Shared by bin/check and custom plans: known-finding matching and classification of validated recordings."""
import json, re
import vlib


def match_known(known, pid, finding, ev):
    """A finding [line, layer, prop, detail] is a listed known finding iff an open entry of the same
    property matches its layer, its detail (regex on the JSON text) and the event kind."""
    line, layer, prop, detail = finding
    dj = json.dumps(detail, separators=(",", ":"))
    for k in known:
        if k.get("status") != "open" or k["property"] != pid:
            continue
        m = k["match"]
        if m.get("layer") and m["layer"] != layer:
            continue
        if m.get("detail") and not re.search(m["detail"], dj):
            continue
        if m.get("event") and not re.search(m["event"], json.dumps(ev, separators=(",", ":"))):
            continue
        return k
    return None



def classify(pid, recs, cov, scr, specdir, trace_module="Trace.tla", trace_cfg="Trace.cfg"):
    violations, known_hits = [], {}
    known = vlib.load_known()
    for rec, source, nbeh in recs:
        n, findings, _ = vlib.validate(specdir, rec, scr, module=trace_module, cfg=trace_cfg)
        cov["steps_validated"] += n
        cov["traces_validated_against_impl"] += nbeh
        cov["recordings"].append(dict(source=source, behaviours=nbeh, steps=n, findings=len(findings)))
        lines = None
        mine = [f for f in findings if f[2] == pid]
        cov["findings_other_properties"] += len([f for f in findings if f[2] not in (pid, "note")])
        cov["notes"] += [dict(source=source, line=f[0], note=f[3]) for f in findings if f[2] == "note"][:5]
        if mine:
            lines = open(rec).read().splitlines()
        for f in mine:
            ev = json.loads(lines[f[0] - 1])["args"]
            k = match_known(known, pid, f, ev)
            if k:
                known_hits.setdefault(k["id"], dict(entry=k, count=0, first=dict(source=source, line=f[0], detail=f[3], event=ev)))
                known_hits[k["id"]]["count"] += 1
            else:
                violations.append((rec, source, f, ev))
    return violations, known_hits
