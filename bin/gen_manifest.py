#!/usr/bin/env python3
"""Regenerates /verif/MANIFEST.json from bin/plans.py (claimed properties) and the notes below."""
import json, os, sys
sys.path.insert(0, os.path.dirname(os.path.abspath(__file__)))
import plans
ROOT = os.path.dirname(os.path.dirname(os.path.abspath(__file__)))
props = [json.loads(l) for l in open(os.path.join(ROOT, "properties.jsonl"))]
NOT_YET = "not yet covered by the specification in this round (see DESIGN.md section 13 for the order of construction)"
checks, na = [], []
for p in props:
    pid = p["id"]
    if pid in plans.PLANS:
        pl = plans.PLANS[pid]
        checks.append(dict(
            property_id=pid,
            quick_cmd="bin/check %s --tier quick" % pid,
            thorough_cmd="bin/check %s --tier thorough" % pid,
            evidence_file="evidence/%s.json" % pid,
            replay_cmd_template="bin/check %s --replay {path}" % pid,
            engine="tlc+vharness",
            level_claimed=dict(category=pl.get("level", "model_checking"),
                               text=pl.get("level_text", "TLC checks the property on the TLA+ specification exhaustively in a bounded configuration; the specification is bound to the code by replaying TLC-generated and seeded random schedules on the real application and validating every recorded step (refinement from the observed pre-state) plus every property monitor with TLC."),
                               design_ref=pl.get("design_ref", "DESIGN.md section 7 " + pid)),
            level_note=pl.get("level_note", "Trusted: Cosmos SDK/CometBFT/IAVL, the Go toolchain, TLC, the harness' projection (public query API). Bounded scopes and sampled schedules: no claim beyond the explored bounds."),
            technique=pl.get("technique", "TLA+ spec + TLC model checking; trace validation of real-code recordings against the spec")))
    else:
        na.append(dict(property_id=pid, reason=plans.NOT_APPLICABLE.get(pid, NOT_YET)))
m = dict(version=1,
         setup_cmd="bin/setup",
         hooks=dict(guard="verif", enable="go build -tags verif (harness module with replace => /repo)",
                    baseline_off_cmd="cd /repo && go test -vet=off -count=1 -timeout 25m ./...",
                    source_commits=plans.HOOK_COMMITS, add_only=True),
         engines=[dict(name="tlc", path="/opt/veriftools/tla/tla2tools.jar", serves_properties=sorted(plans.PLANS), kind_free_text="explicit-state model checker: exhaustive bounded configs, -simulate schedule generation, trace validation"),
                  dict(name="vharness", path="harness/", serves_properties=sorted(plans.PLANS), kind_free_text="Go harness driving the real app.App through ABCI, recording ndjson traces")],
         checks=checks, not_applicable=na,
         notes="One TLA+ specification (spec/*.tla) decides every claimed property; see DESIGN.md.")
json.dump(m, open(os.path.join(ROOT, "MANIFEST.json"), "w"), indent=1)
print("claimed:", [c["property_id"] for c in checks])
