"""Per-property check plans: which bounded configurations TLC explores exhaustively on the ideal
specification, which schedule generators feed the real application, and with which bounds per tier."""

COMMON_ASSUME = [
    "Cosmos SDK, CometBFT and IAVL are trusted; their observable effect on balances, supply and accounts is compared",
    "the Go harness drives a real app.App through real ABCI calls with really signed transactions; its projection reads state only through public query/keeper API after each call returned",
    "TLC integers are 32-bit: scenario amounts are small; large values enter through the saturating abstraction of DESIGN 3.3",
]

ENT_MC = {"quick": [dict(module="MC_Ent.tla", cfg="MC_Ent_quick.cfg", workers=16, timeout=600)],
          "thorough": [dict(module="MC_Ent.tla", cfg="MC_Ent_full.cfg", workers=16, timeout=3000)]}
ENT_SIM = {"quick": [dict(module="MC_Ent.tla", cfg="MC_Ent_sim.cfg", num=40, depth=120, procs=4)],
           "thorough": [dict(module="MC_Ent.tla", cfg="MC_Ent_sim.cfg", num=600, depth=160, procs=12)]}


def rnd(profile, quick, thorough):
    return {"quick": [dict(profile=profile, steps=quick[0], runs=quick[1])],
            "thorough": [dict(profile=profile, steps=thorough[0], runs=thorough[1])]}


PLANS = {
    "C03": dict(mc=ENT_MC, sim=ENT_SIM, random=rnd("ent", (300, 3), (2000, 20)),
                rule="TLC exhaustive on MC_Ent (all interleavings of raise/decide/whitelist/gov param change/time advance in small scope); behaviours = TLC-simulated schedules + seeded random histories executed on the real app; non-trivial = a recorded step (one ABCI call) validated against Chain!Step and all C03 monitors",
                assumptions=COMMON_ASSUME),
    "C04": dict(mc=ENT_MC, sim=ENT_SIM, random=rnd("ent", (300, 3), (2000, 20)),
                rule="as C03; view = locked/spent books, totals, escrow balance, registered module invariant", assumptions=COMMON_ASSUME),
}

HOOK_COMMITS = []
NOT_APPLICABLE = {}
