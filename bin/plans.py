"""Per-property check plans: which bounded configurations TLC explores exhaustively on the ideal
specification, which schedule generators feed the real application, and with which bounds per tier."""

COMMON_ASSUME = [
    "Cosmos SDK, CometBFT and IAVL are trusted; their observable effect on balances, supply and accounts is compared",
    "the Go harness drives a real app.App through real ABCI calls with really signed transactions; its projection reads state only through public query/keeper API after each call returned",
    "TLC integers are 32-bit: scenario amounts are small; large values enter through the saturating abstraction of DESIGN 3.3",
]

ARITH_ASSUME = ["big-number scenarios use one stream between two accounts in one denomination; a zero time beyond year 9999 or a duration above 2^63-1 seconds may be refused by the chain (not 'accepted' in the sense of the property)",
                "mc/ArithAsBuilt.tla is a vector generator only; verdicts come from StreamArith.tla evaluated by Apalache over the integers"]
ENT_MC = {"quick": [dict(module="MC_Ent.tla", cfg="MC_Ent_quick.cfg", workers=16, timeout=600)],
          "thorough": [dict(module="MC_Ent.tla", cfg="MC_Ent_full.cfg", workers=16, timeout=3000)]}
ENT_SIM = {"quick": [dict(module="MC_Ent.tla", cfg="MC_Ent_sim.cfg", num=40, depth=120, procs=4)],
           "thorough": [dict(module="MC_Ent.tla", cfg="MC_Ent_sim.cfg", num=600, depth=160, procs=12)]}


# MC_Reg_two.cfg: exploration from two registrations per module (two owners) - what concerns one must not touch the other
REG_MC = {"quick": [dict(module="MC_Reg.tla", cfg="MC_Reg_quick.cfg", workers=16, timeout=600), dict(module="MC_Reg.tla", cfg="MC_Reg_two.cfg", workers=16, timeout=600)],
          "thorough": [dict(module="MC_Reg.tla", cfg="MC_Reg_full.cfg", workers=16, timeout=3000), dict(module="MC_Reg.tla", cfg="MC_Reg_two.cfg", workers=16, timeout=600)]}
REG_SIM = {"quick": [dict(module="MC_Reg.tla", cfg="MC_Reg_sim.cfg", num=40, depth=150, procs=4)],
           "thorough": [dict(module="MC_Reg.tla", cfg="MC_Reg_sim.cfg", num=600, depth=200, procs=12)]}
STR_MC = {"quick": [dict(module="MC_Str.tla", cfg="MC_Str_quick.cfg", workers=16, timeout=600)],
          "thorough": [dict(module="MC_Str.tla", cfg="MC_Str_full.cfg", workers=16, timeout=3000)]}
STR_SIM = {"quick": [dict(module="MC_Str.tla", cfg="MC_Str_sim.cfg", num=40, depth=150, procs=4)],
           "thorough": [dict(module="MC_Str.tla", cfg="MC_Str_sim.cfg", num=600, depth=200, procs=12)]}
STR_SWEEP = {"quick": [dict(module="SW_Str.tla", cfg="SW_Str.cfg")], "thorough": [dict(module="SW_Str.tla", cfg="SW_Str.cfg")]}
REG_SWEEP = {"quick": [dict(module="SW_Reg.tla", cfg="SW_Reg.cfg")], "thorough": [dict(module="SW_Reg.tla", cfg="SW_Reg.cfg")]}
FEE_MC = {"quick": [dict(module="MC_Fee.tla", cfg="MC_Fee_quick.cfg", workers=16, timeout=600)],
          "thorough": [dict(module="MC_Fee.tla", cfg="MC_Fee_full.cfg", workers=16, timeout=3000)]}
FEE_SIM = {"quick": [dict(module="MC_Fee.tla", cfg="MC_Fee_sim.cfg", num=30, depth=150, procs=4)],
           "thorough": [dict(module="MC_Fee.tla", cfg="MC_Fee_sim.cfg", num=500, depth=200, procs=12)]}
FEE_SWEEP = {"quick": [dict(module="SW_Fee.tla", cfg="SW_Fee.cfg")], "thorough": [dict(module="SW_Fee.tla", cfg="SW_Fee.cfg")]}
AUTH_SWEEP = {"quick": [dict(module="MC_Auth.tla", cfg="MC_Auth.cfg")], "thorough": [dict(module="MC_Auth.tla", cfg="MC_Auth.cfg")]}
PAR_SWEEP = {"quick": [dict(module="MC_Par.tla", cfg="MC_Par.cfg")], "thorough": [dict(module="MC_Par.tla", cfg="MC_Par.cfg")]}


ENT_GHOST = {"quick": [dict(module="MC_Ent.tla", cfg="MC_Ent_ghost.cfg", workers=16, timeout=600)], "thorough": [dict(module="MC_Ent.tla", cfg="MC_Ent_ghost.cfg", workers=16, timeout=600)]}
REG_GHOST = {"quick": [dict(module="MC_Reg.tla", cfg="MC_Reg_ghost.cfg", workers=16, timeout=600)], "thorough": [dict(module="MC_Reg.tla", cfg="MC_Reg_ghost.cfg", workers=16, timeout=600)]}
# the group policy account (32-byte address, acts through group proposals) as a party of every module
GRP_MC = {"quick": [dict(module="MC_Grp.tla", cfg="MC_Grp_quick.cfg", workers=16, timeout=600)], "thorough": [dict(module="MC_Grp.tla", cfg="MC_Grp_full.cfg", workers=16, timeout=1500)]}
STR_GHOST = {"quick": [dict(module="MC_Str.tla", cfg="MC_Str_ghost.cfg", workers=16, timeout=600)], "thorough": [dict(module="MC_Str.tla", cfg="MC_Str_ghost.cfg", workers=16, timeout=600)]}


FEE_GRANT = {"quick": [dict(module="MC_Fee.tla", cfg="MC_Fee_grant.cfg", workers=16, timeout=600)], "thorough": [dict(module="MC_Fee.tla", cfg="MC_Fee_grant.cfg", workers=16, timeout=600)]}
STR_DEEP = {"quick": [dict(module="MC_Str.tla", cfg="MC_Str_deep.cfg", workers=16, timeout=600)], "thorough": [dict(module="MC_Str.tla", cfg="MC_Str_deep.cfg", workers=16, timeout=600)]}
REG_DEEP = {"quick": [dict(module="MC_Reg.tla", cfg="MC_Reg_deep.cfg", workers=16, timeout=900)], "thorough": [dict(module="MC_Reg.tla", cfg="MC_Reg_deep.cfg", workers=16, timeout=900)]}


def both(*dicts):
    out = {"quick": [], "thorough": []}
    for d in dicts:
        for t in out:
            out[t] += d.get(t, [])
    return out



def rnd(profile, quick, thorough):
    return {"quick": [dict(profile=profile, steps=quick[0], runs=quick[1])],
            "thorough": [dict(profile=profile, steps=thorough[0], runs=thorough[1])]}


def rolled_back_fee_behaviours():
    """Fee parameters written by a proposal that is rolled back (its second message fails) - and by one that passes -, then
    admission (CheckTx) of record / register / purchase transactions at the old, the proposed and a third fee."""
    g = {"accts": ["A1", "A2"], "bal": {"A1": {"nund": 1000, "other": 10}, "A2": {"nund": 1000, "other": 10}},
         "ent": {"signers": ["A1"], "min": 1, "limit": 4, "denom": "nund", "wl": [], "startId": 1},
         "wrk": {"feeReg": 24, "feeRec": 2, "feePur": 3, "denom": "nund", "def": 2, "max": 4, "startId": 1},
         "bcn": {"feeReg": 20, "feeRec": 1, "feePur": 5, "denom": "nund", "def": 2, "max": 4, "startId": 1},
         "str": {"feeNum": 1, "feeDen": 100}}
    BB, EB, CM = {"a": "BeginBlock", "dt": 1000}, {"a": "EndBlock"}, {"a": "Commit"}
    wreg = {"t": "WReg", "owner": "A1", "moniker": "m", "name": "n", "genesis": "g", "type": "t"}
    breg = {"t": "BReg", "owner": "A1", "moniker": "m", "name": "n"}
    ops = {"wrk": [{"t": "WRec", "owner": "A1", "id": 1, "h": 7, "bh": "b", "ph": "", "h1": "", "h2": "", "h3": ""}, dict(wreg, owner="A2"), {"t": "WBuy", "owner": "A1", "id": 1, "n": 1}],
           "bcn": [{"t": "BRec", "owner": "A1", "id": 1, "hash": "x", "subt": 7}, dict(breg, owner="A2"), {"t": "BBuy", "owner": "A1", "id": 1, "n": 1}]}
    gb = []
    for k in ("wrk", "bcn"):
        newp = dict(g[k], feeReg=31, feeRec=6, feePur=7)
        del newp["startId"]
        for failing in (True, False):
            msgs = [{"t": "UpdParams", "mod": k, "authority": "gov", "p": newp}]
            if failing:
                msgs.append({"t": "Send", "from": "gov", "to": "A1", "amt": 5, "denom": "nund"})
            b = [{"a": "InitChain", "g": g}, BB, {"a": "DeliverTx", "fee": {"nund": 24}, "msgs": [wreg]}, {"a": "DeliverTx", "fee": {"nund": 20}, "msgs": [breg]},
                 {"a": "DeliverTx", "msgs": [{"t": "GovProp", "proposer": "V", "msgs": msgs}, {"t": "Vote", "voter": "V", "id": 1}]}, EB, CM] + [BB, EB, CM] * 3
            for m in ops[k]:
                old = {"Rec": g[k]["feeRec"], "Reg": g[k]["feeReg"], "Buy": g[k]["feePur"]}[m["t"][1:]]
                new = {"Rec": 6, "Reg": 31, "Buy": 7}[m["t"][1:]]
                for f in (old, new, new + 1):
                    b.append({"a": "CheckTx", "fee": {"nund": f}, "msgs": [m], "reset": True})
            gb.append(b)
    return gb


def c06_custom(pid, tier, plan, scr, hbin, specdir):
    """C06: TLC enumerates CheckTx inputs one per behaviour (common prefix); they are packed into one
    behaviour per preset (prefix once, then every input followed by an empty block when admitted)."""
    import json, random, os
    import vlib
    from check_common import classify
    sd = vlib.seed()
    cov = dict(states=0, transitions=0, traces_validated_against_impl=0, samples=[], mc_runs=[], recordings=[],
               steps_validated=0, inputs_offered_to_checktx=0, admitted=0, notes=[], findings_other_properties=0)
    cfgs = [("MC_Adm_1F.cfg", None), ("MC_Adm_1T.cfg", None), ("MC_Adm_2F.cfg", 2500 if tier == "quick" else None),
            ("MC_Adm_2T.cfg", 1500 if tier == "quick" else None)]
    if tier == "thorough":
        cfgs += [("MC_Adm_3F.cfg", 20000)]
    recs = []
    for cfg, sample in cfgs:
        behs = vlib.bfs_schedules(specdir, "MC_Adm.tla", cfg, scr, timeout=1500)
        cov["mc_runs"].append(vlib.bfs_schedules.last)
        cov["states"] += vlib.bfs_schedules.last["distinct"]
        cov["transitions"] += vlib.bfs_schedules.last["generated"]
        prefix = behs[0][:-1]
        inputs = [b[-1] for b in behs]
        if sample and len(inputs) > sample:
            # always: transactions with two storage purchases for ONE registration (same type, same id; top-level or wrapped) at
            # every fee class - the per-registration bookkeeping of the fee and slot checks; the rest is a seeded sample
            def flat(ms):
                out = []
                for m in ms:
                    out += flat(m["msgs"]) if m.get("t") in ("Exec", "GExec", "GovProp") else [m]
                return out
            def twin_purchases(ev):
                ms = flat(ev["msgs"])
                return len(ms) == 2 and ms[0].get("t") in ("WBuy", "BBuy") and ms[0].get("t") == ms[1].get("t") and ms[0].get("id") == ms[1].get("id")
            prio = [ev for ev in inputs if twin_purchases(ev)]
            rest = [ev for ev in inputs if not twin_purchases(ev)]
            random.Random(sd).shuffle(rest)
            inputs = prio + rest[:max(sample - len(prio), sample // 2)]
        packed = list(prefix) + [dict(ev, reset=True) for ev in inputs]
        rec, _ = vlib.record_behaviours(hbin, [packed], scr, name="adm-" + cfg.replace(".cfg", ""))
        recs.append((rec, "tlc-enumerated CheckTx inputs:" + cfg, len(inputs)))
        cov["inputs_offered_to_checktx"] += len(inputs)
        if len(cov["samples"]) < 3:
            cov["samples"].append(dict(source=cfg, input=inputs[0]))
    cov["exhaustive"] = tier == "thorough"
    # re-admission: transactions admitted with the exact fee, still pending when governance changes the fees, are
    # offered again in recheck mode after every block (MC_Par's RecheckTail behaviours)
    behs = [b for b in vlib.bfs_schedules(specdir, "MC_Par.tla", "MC_Par.cfg", scr, timeout=900) if any(e.get("a") == "Recheck" for e in b)]
    if not behs:
        raise vlib.Inconclusive("no recheck behaviours from MC_Par (dead driver)")
    cov["mc_runs"].append(vlib.bfs_schedules.last)
    rec, _ = vlib.record_behaviours(hbin, behs, scr, name="recheck")
    recs.append((rec, "tlc-bfs-sweep:MC_Par.cfg pending transactions re-admitted after fee changes", len(behs)))
    cov["recheck_behaviours"] = len(behs)
    gb = rolled_back_fee_behaviours()
    rec, _ = vlib.record_behaviours(hbin, gb, scr, name="fees-after-rolled-back-proposal")
    recs.append((rec, "scripted: admission after a fee update that was rolled back / that passed", len(gb)))
    violations, known_hits = classify(pid, recs, cov, scr, specdir)
    return cov, violations, known_hits


def crash_variants(beh, cap, rng):
    """All placements of one crash in a crash-free behaviour: after BeginBlock, after the k-th DeliverTx,
    after EndBlock, after Commit - followed by Restart and the re-proposal of the interrupted block
    (behaviours of MC_Abci's Crash / Restart / Replay actions)."""
    out = []
    last_commit = 0
    points = []
    for i, ev in enumerate(beh):
        if ev["a"] == "Commit":
            points.append((i, i))       # crash after Commit: nothing to replay
            last_commit = i
        elif ev["a"] in ("BeginBlock", "DeliverTx", "EndBlock"):
            points.append((i, last_commit))
    if len(points) > cap:
        points = rng.sample(points, cap)
    for p, lc in sorted(points):
        replay = beh[lc + 1:p + 1] if p != lc else []
        out.append(beh[:p + 1] + [{"a": "Crash"}, {"a": "Restart"}] + replay + beh[p + 1:])
    return out


def export_variants(beh, cap, rng):
    """One behaviour per block boundary: export + re-import right after that Commit, the rest of the
    behaviour then runs on both chains in lockstep."""
    idx = [i for i, ev in enumerate(beh) if ev["a"] == "Commit"]
    if len(idx) > cap:
        idx = sorted(rng.sample(idx, cap))
    return [beh[:i + 1] + [{"a": "ExportImport"}] + beh[i + 1:] for i in idx]


def bulk_export_behaviour(n=20010):
    """A WRKChain holding MORE records than an export carries (the newest 20,000): n records are executed without being
    recorded one by one (harness event Bulk -> one line `Adopt`), then export + import, then three more records."""
    g = {"accts": ["A1", "A2"], "bal": {"A1": {"nund": 100000, "other": 0}, "A2": {"nund": 1000, "other": 0}},
         "ent": {"signers": ["A1"], "min": 1, "limit": 2, "denom": "nund", "wl": [], "startId": 1},
         "wrk": {"feeReg": 4, "feeRec": 1, "feePur": 1, "denom": "nund", "def": n + 10, "max": n + 10000, "startId": 1},
         "bcn": {"feeReg": 4, "feeRec": 1, "feePur": 1, "denom": "nund", "def": 2, "max": 3, "startId": 1},
         "str": {"feeNum": 1, "feeDen": 100}}
    rec = lambda h: {"t": "WRec", "owner": "A1", "id": 1, "h": h, "bh": "b", "ph": "", "h1": "", "h2": "", "h3": ""}
    return [{"a": "InitChain", "g": g}, {"a": "BeginBlock", "dt": 1000},
            {"a": "DeliverTx", "fee": {"nund": 4}, "msgs": [{"t": "WReg", "owner": "A1", "moniker": "m", "name": "n", "genesis": "g", "type": "t"}]},
            {"a": "EndBlock"}, {"a": "Commit"},
            {"a": "Bulk", "n": n, "id": 1, "owner": "A1"},
            {"a": "ExportImport"},
            {"a": "BeginBlock", "dt": 1000},
            {"a": "DeliverTx", "fee": {"nund": 3}, "msgs": [rec(n + 1), rec(n + 2), rec(n + 3)]},
            {"a": "EndBlock"}, {"a": "Commit"}]


def gapped_heights_export_behaviour():
    """A WRKChain that anchors every 1,000th height only: 25 records up to height 25,000 (far fewer than the 20,000 records an
    export carries, spread over more than 20,000 heights), exported and re-imported, then further records on both chains."""
    g = {"accts": ["A1", "A2"], "bal": {"A1": {"nund": 1000, "other": 0}, "A2": {"nund": 1000, "other": 0}},
         "ent": {"signers": ["A1"], "min": 1, "limit": 2, "denom": "nund", "wl": [], "startId": 1},
         "wrk": {"feeReg": 4, "feeRec": 1, "feePur": 1, "denom": "nund", "def": 30, "max": 40, "startId": 1},
         "bcn": {"feeReg": 4, "feeRec": 1, "feePur": 1, "denom": "nund", "def": 2, "max": 3, "startId": 1},
         "str": {"feeNum": 1, "feeDen": 100}}
    rec = lambda h: {"a": "DeliverTx", "fee": {"nund": 1}, "msgs": [{"t": "WRec", "owner": "A1", "id": 1, "h": h, "bh": "b%d" % h, "ph": "", "h1": "", "h2": "", "h3": ""}]}
    BB, EB, CM = {"a": "BeginBlock", "dt": 1000}, {"a": "EndBlock"}, {"a": "Commit"}
    b = [{"a": "InitChain", "g": g}, BB, {"a": "DeliverTx", "fee": {"nund": 4}, "msgs": [{"t": "WReg", "owner": "A1", "moniker": "m", "name": "n", "genesis": "g", "type": "t"}]}]
    b += [rec(1000 * k) for k in range(1, 26)] + [EB, CM, {"a": "ExportImport"}, BB, rec(26000), rec(27000), EB, CM, {"a": "ListQueries", "full": False}]
    return b


def default_limits_behaviours():
    """Registrations under the production storage limits (default 50,000, maximum 600,000 - the values of the modules'
    DefaultParams, where "limit = default" also means "limit = the code's DefaultStorageLimit constant"), exported and
    re-imported with and without a purchase before, then purchases and records on both chains."""
    g = {"accts": ["A1", "A2"], "bal": {"A1": {"nund": 1000, "other": 0}, "A2": {"nund": 1000, "other": 0}},
         "ent": {"signers": ["A1"], "min": 1, "limit": 2, "denom": "nund", "wl": [], "startId": 1},
         "wrk": {"feeReg": 4, "feeRec": 1, "feePur": 1, "denom": "nund", "def": 50000, "max": 600000, "startId": 1},
         "bcn": {"feeReg": 4, "feeRec": 1, "feePur": 1, "denom": "nund", "def": 50000, "max": 600000, "startId": 1},
         "str": {"feeNum": 1, "feeDen": 100}}
    tx = lambda fee, *msgs: {"a": "DeliverTx", "fee": {"nund": fee}, "msgs": list(msgs)}
    wrec = lambda o, i, h: {"t": "WRec", "owner": o, "id": i, "h": h, "bh": "b", "ph": "", "h1": "", "h2": "", "h3": ""}
    brec = lambda o, i: {"t": "BRec", "owner": o, "id": i, "hash": "x", "subt": 7}
    BB, EB, CM = {"a": "BeginBlock", "dt": 1000}, {"a": "EndBlock"}, {"a": "Commit"}
    head = [{"a": "InitChain", "g": g}, BB,
            tx(4, {"t": "WReg", "owner": "A1", "moniker": "m", "name": "n", "genesis": "g", "type": "t"}),
            tx(4, {"t": "WReg", "owner": "A2", "moniker": "m2", "name": "n", "genesis": "g", "type": "t"}),
            tx(4, {"t": "BReg", "owner": "A1", "moniker": "m", "name": "n"}), tx(4, {"t": "BReg", "owner": "A2", "moniker": "m2", "name": "n"}),
            EB, CM, BB, tx(1, wrec("A1", 1, 1)), tx(1, brec("A1", 1)),
            tx(3, {"t": "BBuy", "owner": "A2", "id": 2, "n": 3}), tx(2, {"t": "WBuy", "owner": "A2", "id": 2, "n": 2}), EB, CM]
    after = [BB, tx(1, {"t": "BBuy", "owner": "A1", "id": 1, "n": 1}), tx(1, {"t": "WBuy", "owner": "A1", "id": 1, "n": 1}),
             tx(1, {"t": "BBuy", "owner": "A2", "id": 2, "n": 1}), tx(1, {"t": "WBuy", "owner": "A2", "id": 2, "n": 1}),
             tx(1, wrec("A1", 1, 2)), tx(1, brec("A1", 1)), tx(1, wrec("A2", 2, 1)), tx(1, brec("A2", 2)), EB, CM, {"a": "ListQueries", "full": False}]
    return [head + [{"a": "ExportImport"}] + after, head + after + [{"a": "ExportImport"}] + after[:-1]]


def c15_custom(pid, tier, plan, scr, hbin, specdir):
    import json, random
    import vlib
    from check_common import classify
    sd = vlib.seed()
    rng = random.Random(sd)
    cov = dict(states=0, transitions=0, traces_validated_against_impl=0, samples=[], mc_runs=[], recordings=[],
               steps_validated=0, notes=[], findings_other_properties=0, export_import_round_trips=0)
    recs = []
    for mc in (FEE_MC[tier] + ENT_MC[tier] + REG_MC[tier] + STR_MC[tier] + GRP_MC[tier]):
        r = vlib.mc_exhaustive(specdir, mc["module"], mc["cfg"], scr, workers=16, timeout=mc.get("timeout", 900))
        cov["mc_runs"].append(r)
        cov["states"] += r["distinct"]
        cov["transitions"] += r["generated"]
        # every coverage-goal behaviour of the model with an export + re-import right after the goal's block
        behs, used = vlib.goal_schedules(vlib.mc_exhaustive.goals, mc["module"], 1 if tier == "quick" else 4)
        xb = vlib.goal_export_variants(behs, vlib.goal_schedules.glens, 1 if tier == "quick" else 2)
        if xb:
            rec, _ = vlib.record_behaviours(hbin, xb, scr, name="goalx-" + mc["cfg"].replace(".cfg", ""))
            recs.append((rec, "tlc-coverage-goals x export/import:" + mc["cfg"], len(xb)))
            cov["export_import_round_trips"] += len(xb)
    nsim, cap = (8, 4) if tier == "quick" else (60, 12)
    for mod, cfg in (("MC_Fee.tla", "MC_Fee_sim.cfg"), ("MC_Reg.tla", "MC_Reg_sim.cfg"), ("MC_Str.tla", "MC_Str_sim.cfg")):
        behs = vlib.sim_schedules(specdir, mod, cfg, scr, nsim, 160, sd, procs=4)
        variants = []
        for b in behs:
            variants += export_variants(b, cap, rng)
        if not variants:
            raise vlib.Inconclusive("no behaviours for " + cfg)
        rec, _ = vlib.record_behaviours(hbin, variants, scr, name="exp-" + cfg.replace(".cfg", ""))
        recs.append((rec, "tlc-simulate:%s x export/import at every block boundary" % cfg, len(variants)))
        cov["export_import_round_trips"] += len(variants)
        if len(cov["samples"]) < 2:
            cov["samples"].append(dict(source=cfg, behaviour=variants[len(variants) // 2][1:16]))
    # the 20,000-record export cap on the real application
    rec, _ = vlib.record_behaviours(hbin, [bulk_export_behaviour()], scr, name="bulk-export")
    recs.append((rec, "scripted: WRKChain with 20,010 records in state, export + import, further records", 1))
    cov["export_import_round_trips"] += 1
    cov["export_cap_crossed_on_real_app"] = True
    dl = default_limits_behaviours() + [gapped_heights_export_behaviour()]
    rec, _ = vlib.record_behaviours(hbin, dl, scr, name="default-limits-export")
    recs.append((rec, "scripted: registrations under the production storage limits (50,000 / 600,000), export + import, purchases and records", len(dl)))
    cov["export_import_round_trips"] += len(dl)
    for prof, (steps, runs) in (("expmix", (250, 3) if tier == "quick" else (1500, 12)), ("expreg", (150, 2) if tier == "quick" else (1000, 8))):
        rec = vlib.record_random(hbin, prof, sd, steps, runs, scr)
        n = sum(1 for l in open(rec) if l.startswith('{"a":"ExportImport"'))
        recs.append((rec, "random:" + prof, runs))
        cov["export_import_round_trips"] += n
    violations, known_hits = classify(pid, recs, cov, scr, specdir)
    return cov, violations, known_hits


def decision_patterns(hbin, scr, sd):
    """Every sequence of three decisions on one raised order by three signers (MinAccepts 2) in which a signer decides more
    than once - the repeat in either spelling of the address -, then the tally, the minting block and two more: quorum
    must come from DISTINCT signers (C02 MintedForAnOrderTheRulesDidNotAccept, C03 OncePerSigner / L2)."""
    import itertools
    import vlib
    g = {"accts": ["A1", "A2", "A3", "A4"], "bal": {a: {"nund": 100, "other": 100} for a in ("A1", "A2", "A3", "A4")},
         "ent": {"signers": ["A1", "A2", "A4"], "min": 2, "limit": 3, "denom": "nund", "wl": ["A3"], "startId": 1},
         "wrk": {"feeReg": 24, "feeRec": 2, "feePur": 3, "denom": "nund", "def": 2, "max": 4, "startId": 1},
         "bcn": {"feeReg": 20, "feeRec": 1, "feePur": 5, "denom": "nund", "def": 2, "max": 4, "startId": 1},
         "str": {"feeNum": 1, "feeDen": 100}}
    BB, EB, CM = {"a": "BeginBlock", "dt": 1000}, {"a": "EndBlock"}, {"a": "Commit"}
    behs = []
    choices = [(s_, d) for s_ in ("A1", "A2", "A4") for d in ("accept", "reject")]
    k = 0
    for seq in itertools.product(choices, repeat=3):
        signers = [x[0] for x in seq]
        if len(set(signers)) == 3:
            continue
        b = [{"a": "InitChain", "g": g}, BB, {"a": "DeliverTx", "msgs": [{"t": "Raise", "pur": "A3", "amt": 9, "denom": "nund"}]}]
        seen = set()
        for s_, d in seq:
            m = {"t": "Decide", "signer": s_, "id": 1, "d": d}
            if s_ in seen and k % 2 == 0:
                m["enc"] = "upper"
            seen.add(s_)
            b.append({"a": "DeliverTx", "msgs": [m]})
        b += [EB, CM] + [BB, EB, CM] * 4
        behs.append(b)
        k += 1
    rec, _ = vlib.record_behaviours(hbin, behs, scr, name="decision-patterns")
    return rec, len(behs)


def signer_list_anomalies(hbin, scr, sd):
    """Governance installs signer lists with a blank entry (trailing, leading, doubled separator), with white space, with a
    duplicate - each must be refused or stored as the rules say (C16) -, then an order collects exactly the critical number
    of rejections (more than signers - MinAccepts) and, later, accepts of the others: "authorised signers" are the real
    ones whatever the list looks like (C03 tally, C02 mint)."""
    import vlib
    g = {"accts": ["A1", "A2", "A3", "A4"], "bal": {a: {"nund": 100, "other": 100} for a in ("A1", "A2", "A3", "A4")},
         "ent": {"signers": ["A1", "A2", "A4"], "min": 2, "limit": 30, "denom": "nund", "wl": ["A3"], "startId": 1},
         "wrk": {"feeReg": 24, "feeRec": 2, "feePur": 3, "denom": "nund", "def": 2, "max": 4, "startId": 1},
         "bcn": {"feeReg": 20, "feeRec": 1, "feePur": 5, "denom": "nund", "def": 2, "max": 4, "startId": 1},
         "str": {"feeNum": 1, "feeDen": 100}}
    BB, EB, CM = {"a": "BeginBlock", "dt": 1000}, {"a": "EndBlock"}, {"a": "Commit"}
    tx = lambda *m: {"a": "DeliverTx", "msgs": list(m)}
    dec = lambda s_, d: tx({"t": "Decide", "signer": s_, "id": 1, "d": d})
    lists = [["A1", "A2", "A4", ""], ["", "A1", "A2", "A4"], ["A1", "", "A2", "A4"], ["A1", "A2", "A4", "", ""], [" A1", "A2", "A4"],
             ["A1", "A1", "A2", "A4"], ["A1", "A2", "A4"], ["A1", "A2", ""]]
    behs = []
    for ls in lists:
        p = {"signers": ls, "min": 2, "limit": 30, "denom": "nund"}
        b = [{"a": "InitChain", "g": g}, BB,
             tx({"t": "GovProp", "proposer": "V", "msgs": [{"t": "UpdParams", "mod": "ent", "authority": "gov", "p": p}]}, {"t": "Vote", "voter": "V", "id": 1}),
             EB, CM] + [BB, EB, CM] * 3
        b += [BB, tx({"t": "Raise", "pur": "A3", "amt": 9, "denom": "nund"}), dec("A1", "reject"), dec("A2", "reject"), EB, CM, BB, EB, CM,
              BB, dec("A4", "accept"), dec("A3", "accept"), EB, CM] + [BB, EB, CM] * 3
        behs.append(b)
    rec, _ = vlib.record_behaviours(hbin, behs, scr, name="signer-list-anomalies")
    return rec, len(behs)


def many_denominations(hbin, scr, sd):
    """C17 with more denominations in the bank supply than the bank's default page holds (120 foreign ones sorting before the
    native denomination): eFUND is minted and locked, partly unlocked by a registry fee, and every supply query is judged at
    every block boundary as usual."""
    import vlib
    g = {"accts": ["A1", "A2", "A3"], "bal": {a: {"nund": 1000, "other": 1000} for a in ("A1", "A2", "A3")},
         "ent": {"signers": ["A1"], "min": 1, "limit": 4, "denom": "nund", "wl": ["A3"], "startId": 1},
         "wrk": {"feeReg": 24, "feeRec": 2, "feePur": 3, "denom": "nund", "def": 2, "max": 4, "startId": 1},
         "bcn": {"feeReg": 20, "feeRec": 1, "feePur": 5, "denom": "nund", "def": 2, "max": 4, "startId": 1},
         "str": {"feeNum": 1, "feeDen": 100}, "manyDenoms": 120}
    BB, EB, CM = {"a": "BeginBlock", "dt": 1000}, {"a": "EndBlock"}, {"a": "Commit"}
    tx = lambda fee, *m: dict({"a": "DeliverTx", "msgs": list(m)}, **({"fee": {"nund": fee}} if fee else {}))
    b = [{"a": "InitChain", "g": g}, BB, tx(0, {"t": "Raise", "pur": "A3", "amt": 50, "denom": "nund"}), tx(0, {"t": "Decide", "signer": "A1", "id": 1, "d": "accept"}), EB, CM] + [BB, EB, CM] * 2
    b += [BB, tx(24, {"t": "WReg", "owner": "A3", "moniker": "m", "name": "n", "genesis": "g", "type": "t"}), EB, CM, BB, EB, CM]
    rec, _ = vlib.record_behaviours(hbin, [b], scr, name="many-denominations")
    return rec, 1


def unbalanced_genesis(hbin, scr, sd):
    """C04 at genesis: an exported document is edited so that the escrow account's bank balance is not the locked total
    (balance dropped / one coin short / one coin over; the bank's supply recomputed) - each must be refused at import; the
    original chain carries on."""
    import vlib
    g = {"accts": ["A1", "A2", "A3"], "bal": {a: {"nund": 1000, "other": 1000} for a in ("A1", "A2", "A3")},
         "ent": {"signers": ["A1"], "min": 1, "limit": 4, "denom": "nund", "wl": ["A3"], "startId": 1},
         "wrk": {"feeReg": 24, "feeRec": 2, "feePur": 3, "denom": "nund", "def": 2, "max": 4, "startId": 1},
         "bcn": {"feeReg": 20, "feeRec": 1, "feePur": 5, "denom": "nund", "def": 2, "max": 4, "startId": 1},
         "str": {"feeNum": 1, "feeDen": 100}}
    BB, EB, CM = {"a": "BeginBlock", "dt": 1000}, {"a": "EndBlock"}, {"a": "Commit"}
    tx = lambda fee, *m: dict({"a": "DeliverTx", "msgs": list(m)}, **({"fee": {"nund": fee}} if fee else {}))
    behs = []
    for how in ("escrow-dropped", "escrow-short", "escrow-extra"):
        b = [{"a": "InitChain", "g": g}, BB, tx(0, {"t": "Raise", "pur": "A3", "amt": 50, "denom": "nund"}), tx(0, {"t": "Decide", "signer": "A1", "id": 1, "d": "accept"}), EB, CM] + [BB, EB, CM] * 2
        b += [{"a": "ExportImport", "mutate": how}, BB, tx(24, {"t": "WReg", "owner": "A3", "moniker": "m", "name": "n", "genesis": "g", "type": "t"}), EB, CM,
              {"a": "ExportImport", "mutate": how}, {"a": "ExportImport"}, BB, EB, CM]
        behs.append(b)
    rec, _ = vlib.record_behaviours(hbin, behs, scr, name="unbalanced-genesis")
    return rec, len(behs)


def removed_signer_acts(hbin, scr, sd):
    """A signer decides and whitelists successfully, governance then removes it from the signer list (in one variant the
    proposal is rolled back and it stays), a new order is raised and the former signer accepts it and whitelists again:
    only CURRENT signers' decisions are recorded and counted (C02 / C03 / C13)."""
    import vlib
    g = {"accts": ["A1", "A2", "A3", "A4"], "bal": {a: {"nund": 100, "other": 100} for a in ("A1", "A2", "A3", "A4")},
         "ent": {"signers": ["A1", "A2"], "min": 1, "limit": 30, "denom": "nund", "wl": ["A3"], "startId": 1},
         "wrk": {"feeReg": 24, "feeRec": 2, "feePur": 3, "denom": "nund", "def": 2, "max": 4, "startId": 1},
         "bcn": {"feeReg": 20, "feeRec": 1, "feePur": 5, "denom": "nund", "def": 2, "max": 4, "startId": 1},
         "str": {"feeNum": 1, "feeDen": 100}}
    BB, EB, CM = {"a": "BeginBlock", "dt": 1000}, {"a": "EndBlock"}, {"a": "Commit"}
    tx = lambda *m: {"a": "DeliverTx", "msgs": list(m)}
    behs = []
    for failing in (False, True):
        msgs = [{"t": "UpdParams", "mod": "ent", "authority": "gov", "p": {"signers": ["A2"], "min": 1, "limit": 30, "denom": "nund"}}]
        if failing:
            msgs.append({"t": "Send", "from": "gov", "to": "A1", "amt": 5, "denom": "nund"})
        b = [{"a": "InitChain", "g": g}, BB, tx({"t": "Raise", "pur": "A3", "amt": 9, "denom": "nund"}), tx({"t": "Decide", "signer": "A1", "id": 1, "d": "accept"}),
             tx({"t": "Whitelist", "signer": "A1", "addr": "A4", "act": "add"}), EB, CM] + [BB, EB, CM] * 2
        b += [BB, tx({"t": "GovProp", "proposer": "V", "msgs": msgs}, {"t": "Vote", "voter": "V", "id": 1}), EB, CM] + [BB, EB, CM] * 3
        b += [BB, tx({"t": "Raise", "pur": "A3", "amt": 7, "denom": "nund"}), tx({"t": "Decide", "signer": "A1", "id": 2, "d": "accept"}),
              tx({"t": "Whitelist", "signer": "A1", "addr": "A2", "act": "add"}), tx({"t": "Raise", "pur": "A2", "amt": 3, "denom": "nund"}), EB, CM] + [BB, EB, CM] * 3
        behs.append(b)
    rec, _ = vlib.record_behaviours(hbin, behs, scr, name="removed-signer-acts")
    return rec, len(behs)


def restart_behaviours(g, blocks):
    """One behaviour per block boundary: the blocks in order, with a crash and a restart after the k-th block's Commit."""
    behs = []
    for k in range(1, len(blocks)):
        b = [{"a": "InitChain", "g": g}]
        for i, blk in enumerate(blocks):
            b += blk
            if i + 1 == k:
                b += [{"a": "Crash"}, {"a": "Restart"}]
        behs.append(b)
    return behs


def restart_before_completion(hbin, scr, sd):
    """A node that is stopped and started again on its database at every block boundary of an order's life (raised, decided,
    tallied, minted): after the restart it goes on exactly where the committed state says (C03: the order is completed in
    the block after its acceptance; nothing the process only remembered may matter)."""
    import vlib
    g = {"accts": ["A1", "A2", "A3"], "bal": {a: {"nund": 100, "other": 100} for a in ("A1", "A2", "A3")},
         "ent": {"signers": ["A1", "A2"], "min": 1, "limit": 30, "denom": "nund", "wl": ["A3"], "startId": 1},
         "wrk": {"feeReg": 24, "feeRec": 2, "feePur": 3, "denom": "nund", "def": 2, "max": 4, "startId": 1},
         "bcn": {"feeReg": 20, "feeRec": 1, "feePur": 5, "denom": "nund", "def": 2, "max": 4, "startId": 1},
         "str": {"feeNum": 1, "feeDen": 100}, "db": "goleveldb"}
    BB, EB, CM = {"a": "BeginBlock", "dt": 1000}, {"a": "EndBlock"}, {"a": "Commit"}
    tx = lambda *m: {"a": "DeliverTx", "msgs": list(m)}
    blocks = [[BB, tx({"t": "Raise", "pur": "A3", "amt": 9, "denom": "nund"}), tx({"t": "Decide", "signer": "A1", "id": 1, "d": "accept"}), EB, CM],
              [BB, tx({"t": "Raise", "pur": "A3", "amt": 5, "denom": "nund"}), EB, CM],
              [BB, tx({"t": "Decide", "signer": "A2", "id": 2, "d": "accept"}), EB, CM], [BB, EB, CM], [BB, EB, CM], [BB, EB, CM]]
    behs = restart_behaviours(g, blocks)
    rec, _ = vlib.record_behaviours(hbin, behs, scr, name="restart-before-completion")
    return rec, len(behs)


def extreme_amounts(hbin, scr, sd):
    """C14 'extreme amounts': purchase orders of 2^62 ... 2^200 nund (decimal strings; far beyond TLC's integers) raised,
    accepted, minted and locked, partly unlocked by registry fees, with an export/import at the end.  The genesis is
    marked "extreme": Trace.tla judges these behaviours by ExtremeJudge only (no halt, failed transactions and
    read-only calls leave the module stores byte-identical)."""
    import vlib
    g = {"accts": ["A1", "A2", "A3", "A4"], "bal": {a: {"nund": 1000, "other": 1000} for a in ("A1", "A2", "A3", "A4")},
         "ent": {"signers": ["A1", "A2"], "min": 1, "limit": 4, "denom": "nund", "wl": ["A3", "A4"], "startId": 1},
         "wrk": {"feeReg": 24, "feeRec": 2, "feePur": 3, "denom": "nund", "def": 2, "max": 4, "startId": 1},
         "bcn": {"feeReg": 20, "feeRec": 1, "feePur": 5, "denom": "nund", "def": 2, "max": 4, "startId": 1},
         "str": {"feeNum": 1, "feeDen": 100}, "extreme": True}
    BB, EB, CM = {"a": "BeginBlock", "dt": 1000}, {"a": "EndBlock"}, {"a": "Commit"}
    empty = [BB, EB, CM]

    def tx(*msgs, **kw):
        d = {"a": "DeliverTx", "msgs": list(msgs)}
        d.update(kw)
        return d

    def raise_(pur, amt):
        return tx({"t": "Raise", "pur": pur, "amt": str(amt), "denom": "nund"})

    def decide(id_, d="accept", signer="A1"):
        return tx({"t": "Decide", "signer": signer, "id": id_, "d": d})

    wreg = lambda o: tx({"t": "WReg", "owner": o, "moniker": "m-" + o, "name": "n", "genesis": "g", "type": "geth"}, fee={"nund": 24})
    breg = lambda o: tx({"t": "BReg", "owner": o, "moniker": "b-" + o, "name": "n"}, fee={"nund": 20})
    tail = [{"a": "ListQueries", "full": False}, {"a": "ExportImport"}] + empty
    behs = []
    for amounts in ([2**62, 2**62], [2**63], [2**63 - 1, 1], [2**64, 2**100], [2**127, 2**127, 2**200], [2**62, 2**62, 2**62, 2**62]):
        b = [{"a": "InitChain", "g": g}, BB]
        for i, amt in enumerate(amounts):
            b.append(raise_("A3" if i % 2 == 0 else "A4", amt))
        b += [decide(i + 1) for i in range(len(amounts))]
        b += [EB, CM] + empty * 3
        # the holders spend locked eFUND on registry fees; a transfer of liquid funds; one more (small) order on top
        b += [BB, wreg("A3"), breg("A4") if len(amounts) > 1 else breg("A3"),
              tx({"t": "Send", "from": "A3", "to": "A1", "amt": 5, "denom": "nund"}), raise_("A3", 7), decide(len(amounts) + 1, signer="A2"),
              # a failing multi-message transaction on top of the big books
              tx({"t": "Send", "from": "A3", "to": "A1", "amt": 1, "denom": "nund"}, {"t": "Send", "from": "A3", "to": "A1", "amt": str(2**70), "denom": "other"}),
              EB, CM] + empty * 3 + tail
        behs.append(b)
    rec, _ = vlib.record_behaviours(hbin, behs, scr, name="extreme-amounts")
    return rec, len(behs)


def c01_custom(pid, tier, plan, scr, hbin, specdir):
    import json, os, random
    import vlib
    from check_common import classify
    sd = vlib.seed()
    rng = random.Random(sd)
    cov = dict(states=0, transitions=0, traces_validated_against_impl=0, samples=[], mc_runs=[], recordings=[],
               steps_validated=0, notes=[], findings_other_properties=0, crash_points_executed=0, replicas=3)
    mc = vlib.mc_exhaustive(specdir, "MC_Abci.tla", "MC_Abci_quick.cfg" if tier == "quick" else "MC_Abci_full.cfg", scr, workers=16, timeout=3000)
    cov["mc_runs"].append(mc)
    cov["states"] += mc["distinct"]
    cov["transitions"] += mc["generated"]
    recs = []

    def twin(behs, name, source):
        d = scr.sub(name)
        inp, out = os.path.join(d, "behaviours.json"), os.path.join(d, "rec.ndjson")
        json.dump(behs, open(inp, "w"))
        vlib.harness(hbin, ["twin", "-in", inp, "-out", out], timeout=9000)
        recs.append((out, source, len(behs)))
        cov["crash_points_executed"] += sum(1 for b in behs for e in b if e["a"] == "Crash")

    # (1) TLC-simulated behaviours of MC_Abci with the crash points TLC chose
    behs = vlib.sim_schedules(specdir, "MC_Abci.tla", "MC_Abci_sim.cfg", scr, 30 if tier == "quick" else 200, 140, sd, procs=4 if tier == "quick" else 12)
    if not behs:
        raise vlib.Inconclusive("no behaviours from MC_Abci_sim (dead driver)")
    cov["samples"].append(dict(source="tlc-simulate MC_Abci_sim.cfg", behaviour=[e for e in behs[0][1:20]]))
    twin(behs, "twin-sim", "tlc-simulate:MC_Abci_sim.cfg on replicas A/B/C")
    # (2) long mixed histories from the seeded random driver, every crash point of every block
    nh, steps, cap = (2, 60, 30) if tier == "quick" else (6, 160, 40)
    rec = vlib.record_random(hbin, "mix", sd, steps, nh, scr)
    lines = [json.loads(l) for l in open(rec)]
    # registry-heavy histories with transactions that buy storage for several registrations at once
    rec2 = vlib.record_random(hbin, "bulk", sd, steps * 2, nh, scr)
    lines += [json.loads(l) for l in open(rec2)]
    hists, cur = [], []
    for r in lines:
        if r["a"] == "InitChain" and cur:
            hists.append(cur)
            cur = []
        cur.append(r["args"])
    hists.append(cur)
    variants = []
    for h in hists:
        variants += crash_variants(h, cap, rng)
    twin(variants, "twin-allpoints", "random mixed histories x every crash point on replicas A/B/C")
    # (3) behaviours in which something was written only inside a rolled-back transaction or proposal (coverage goals
    #     ghost* / gov:proposal-rolled-back of the bounded models), crashed at the block boundaries right before the
    #     step whose outcome would depend on it: a restarted replica has lost whatever the process kept outside the store
    gvars = []
    for mod, cfg in (("MC_Ent.tla", "MC_Ent_ghost.cfg"), ("MC_Reg.tla", "MC_Reg_ghost.cfg"), ("MC_Str.tla", "MC_Str_ghost.cfg")):
        r = vlib.mc_exhaustive(specdir, mod, cfg, scr, workers=16, timeout=900)
        cov["mc_runs"].append(r)
        cov["states"] += r["distinct"]
        cov["transitions"] += r["generated"]
        sel = {l: v for l, v in vlib.mc_exhaustive.goals.items() if l.startswith(("ghost", "gov:proposal-rolled"))}
        behs, used = vlib.goal_schedules(sel, mod, 2 if tier == "quick" else 6)
        cov.setdefault("goal_labels_replayed", {}).update(used)
        for b, gl in zip(behs, vlib.goal_schedules.glens):
            commits = [i for i, ev in enumerate(b) if ev["a"] == "Commit" and i < gl - 1]
            for i in commits[-2:]:
                gvars.append(b[:i + 1] + [{"a": "Crash"}, {"a": "Restart"}] + b[i + 1:])
    if gvars:
        twin(gvars, "twin-goals", "tlc-coverage-goals (rolled-back writes) x crash before the dependent step on replicas A/B/C")
    # (4) wall-clock independence: model time 0 is placed so that a stream's deposit-zero time and an order's decision
    #     deadline lie a few seconds AFTER the real clock; replica A executes at once (before them), replicas C and B
    #     only after they have passed.  Code that consults the node's clock instead of the block time diverges.
    import time as _time
    now = int(_time.time())
    t0 = now + 5 - 61          # the deadlines are at model second 61 = wall clock now + 5 s
    g = {"accts": ["A1", "A2", "A3"], "bal": {a: {"nund": 500, "other": 300} for a in ("A1", "A2", "A3")},
         "ent": {"signers": ["A1"], "min": 1, "limit": 60, "denom": "nund", "wl": ["A3"], "startId": 1},
         "wrk": {"feeReg": 4, "feeRec": 1, "feePur": 1, "denom": "nund", "def": 1, "max": 3, "startId": 1},
         "bcn": {"feeReg": 4, "feeRec": 1, "feePur": 1, "denom": "nund", "def": 2, "max": 3, "startId": 1},
         "str": {"feeNum": 1, "feeDen": 10}, "t0unix": t0, "waitUntil": now + 7}
    tx = lambda *msgs: {"a": "DeliverTx", "msgs": list(msgs)}
    blk = lambda dt, *txs: [{"a": "BeginBlock", "dt": dt}] + list(txs) + [{"a": "EndBlock"}, {"a": "Commit"}]
    wall = [{"a": "InitChain", "g": g}] + blk(1000, tx({"t": "SCreate", "sender": "A1", "receiver": "A2", "dep": 60, "denom": "nund", "rate": 1}),
                                              tx({"t": "Raise", "pur": "A3", "amt": 5, "denom": "nund"})) \
        + blk(10000, tx({"t": "STopUp", "sender": "A1", "receiver": "A2", "dep": 60, "denom": "nund"}), tx({"t": "SClaim", "sender": "A1", "receiver": "A2"})) \
        + blk(1000, tx({"t": "SRate", "sender": "A1", "receiver": "A2", "rate": 2}), tx({"t": "Decide", "signer": "A1", "id": 1, "d": "accept"})) \
        + blk(1000) + blk(1000, tx({"t": "SCancel", "sender": "A1", "receiver": "A2"})) + blk(1000)
    # an order's life (raised, decided, tallied, minted and locked, spent on a fee) next to a stream and a registration, with the
    # second replica stopped and started again on its database after every block in turn
    g2 = {k: v for k, v in g.items() if k not in ("t0unix", "waitUntil")}
    fee = lambda f, m: {"a": "DeliverTx", "fee": {"nund": f}, "msgs": [m]}
    life = [blk(1000, tx({"t": "Raise", "pur": "A3", "amt": 40, "denom": "nund"}), tx({"t": "Decide", "signer": "A1", "id": 1, "d": "accept"}),
                tx({"t": "SCreate", "sender": "A1", "receiver": "A2", "dep": 120, "denom": "nund", "rate": 1})),
            blk(1000, tx({"t": "Raise", "pur": "A3", "amt": 7, "denom": "nund"})), blk(1000, tx({"t": "Decide", "signer": "A1", "id": 2, "d": "accept"})),
            blk(1000, fee(24, {"t": "WReg", "owner": "A3", "moniker": "m", "name": "n", "genesis": "g", "type": "t"})),
            blk(1000, fee(2, {"t": "WRec", "owner": "A3", "id": 1, "h": 1, "bh": "b", "ph": "", "h1": "", "h2": "", "h3": ""}), tx({"t": "SClaim", "sender": "A1", "receiver": "A2"})),
            blk(1000), blk(1000)]
    twin(restart_behaviours(g2, life), "twin-order-life", "scripted: an order's life, a stream and a registration; replica B restarted after every block in turn")
    twin([wall], "twin-wallclock", "scripted: deadlines a few seconds after the wall clock; replica A before, replicas B/C after")
    cov["wall_clock_scenarios"] = 1
    violations, known_hits = classify(pid, recs, cov, scr, specdir)
    return cov, violations, known_hits


def _vectors(out):
    import re, json, vlib
    vs, seen = [], set()
    for m in re.finditer(r'<<"VECTOR", "(.*)">>', out):
        js = vlib.unquote_tla_string(m.group(1))
        if js not in seen:
            seen.add(js)
            vs.append(json.loads(js))
    return vs


def c19_custom(pid, tier, plan, scr, hbin, specdir):
    """C19: TLC checks DenomProps for every input of the bounded configurations of MC_Denom and prints the
    conformance vectors (input string, expected output strings) of EVERY explored input; tlc -simulate adds
    long pseudo-random inputs (5..30 significant digits, every fractional length); the harness calls the REAL
    ConvertUndDenomination on every vector (and the way back); TraceDenom re-derives the expected strings
    from the digit sequences and judges the returned strings."""
    import os, json, subprocess, shutil
    import vlib
    from check_common import classify
    sd = vlib.seed()
    cov = dict(states=0, transitions=0, traces_validated_against_impl=0, samples=[], mc_runs=[], recordings=[],
               steps_validated=0, notes=[], findings_other_properties=0, vectors=0)
    cfgs = ["MC_Denom_quick.cfg"] if tier == "quick" else ["MC_Denom_quick.cfg", "MC_Denom_full.cfg", "MC_Denom_deep.cfg"]
    recs = []
    for cfg in cfgs:
        rc, out, dt = vlib.run_tlc(specdir, "MC_Denom.tla", cfg, scr, workers=1, timeout=3000)
        c = vlib.parse_counts(out)
        if "Model checking completed. No error has been found." not in out or not c:
            raise vlib.Inconclusive("TLC reported an error on MC_Denom/%s (model error):\n%s" % (cfg, out[-4000:]))
        cov["mc_runs"].append(dict(module="MC_Denom.tla", cfg=cfg, generated=c[0], distinct=c[1], wall_s=round(dt, 1)))
        cov["states"] += c[1]
        cov["transitions"] += c[0]
        vs = _vectors(out)
        if not vs:
            raise vlib.Inconclusive("no vectors from " + cfg)
        recs.append((_denom_record(hbin, vs, scr, cfg), "tlc-exhaustive vectors:" + cfg, len(vs)))
        cov["vectors"] += len(vs)
        if len(cov["samples"]) < 2:
            cov["samples"].append(dict(source=cfg, vector=vs[len(vs) // 2]))
    num = 300 if tier == "quick" else 6000
    procs = 4 if tier == "quick" else 12
    outs = []
    ps = []
    for i in range(procs):
        meta = scr.sub("simmeta")
        cmd = ["timeout", "900", "tlc", "-workers", "1", "-simulate", "num=%d" % ((num + procs - 1) // procs), "-depth", "33",
               "-seed", str(sd * 7919 + i), "-metadir", meta, "-config", "MC_Denom_sim.cfg", "MC_Denom.tla"]
        ps.append((subprocess.Popen(cmd, cwd=specdir, stdout=subprocess.PIPE, stderr=subprocess.STDOUT, text=True), meta))
    vs, seen = [], set()
    for p, meta in ps:
        out, _ = p.communicate()
        shutil.rmtree(meta, ignore_errors=True)
        if "Error:" in out:
            raise vlib.Inconclusive("TLC simulation failed on MC_Denom_sim (model error):\n" + out[-3000:])
        for v in _vectors(out):
            k = json.dumps(v, sort_keys=True)
            if k not in seen:
                seen.add(k)
                vs.append(v)
    if not vs:
        raise vlib.Inconclusive("no vectors from MC_Denom_sim (dead driver)")
    recs.append((_denom_record(hbin, vs, scr, "sim"), "tlc-simulate long vectors:MC_Denom_sim.cfg", len(vs)))
    cov["vectors"] += len(vs)
    cov["samples"].append(dict(source="MC_Denom_sim.cfg", vector=vs[0]))
    violations, known_hits = classify(pid, recs, cov, scr, specdir, "TraceDenom.tla", "TraceDenom.cfg")
    return cov, violations, known_hits


def _replay_verdict(pid, path, rec, scr, specdir, module, cfg):
    import json, vlib
    n, findings, _ = vlib.validate(specdir, rec, scr, module=module, cfg=cfg)
    mine = [f for f in findings if f[2] == pid]
    for f in mine[:20]:
        print("finding line=%d layer=%s detail=%s" % (f[0], f[1], json.dumps(f[3])))
    if mine:
        _, _, ex = vlib.validate(specdir, rec, scr, explain=mine[0][0], module=module, cfg=cfg)
        for e in ex:
            print("explain " + json.dumps(e)[:3000])
        print("VIOLATION property=%s replay=%s" % (pid, path))
        return 1
    print("replay: no finding for %s" % pid)
    return 0


def c19_replay(pid, path, scr, hbin, specdir):
    """re-convert the vectors of a stored recording on the current tree and judge them again"""
    import json
    vs = [json.loads(l)["args"] for l in open(path) if l.strip()]
    rec = _denom_record(hbin, vs, scr, "replay")
    return _replay_verdict(pid, path, rec, scr, specdir, "TraceDenom.tla", "TraceDenom.cfg")


def c18_replay(pid, path, scr, hbin, specdir):
    """re-execute the operations of a stored recording (one behaviour with its instantiation) on the current tree"""
    import json, os, vlib
    behs, cur = [], None
    for l in open(path):
        if not l.strip():
            continue
        r = json.loads(l)
        if r["a"] == "Reset":
            cur = dict(keys=r["args"]["keys"], ops=[])
            behs.append(cur)
        elif r["a"] == "KeyOp" and cur is not None:
            cur["ops"].append(dict(op=r["args"]["op"], sec=r["args"]["sec"], k=r["args"]["k"], v=r["args"]["v"]))
    inp_b = []
    for b in behs:
        if b["ops"]:
            ops = [dict(o) for o in b["ops"]]
            ops[0]["keys"] = b["keys"]
            inp_b.append(ops)
    d = scr.sub("keys-replay")
    inp, out = os.path.join(d, "behaviours.json"), os.path.join(d, "rec.ndjson")
    json.dump(inp_b, open(inp, "w"))
    vlib.harness(hbin, ["keys", "-in", inp, "-out", out, "-runs", "1"])
    return _replay_verdict(pid, path, out, scr, specdir, "TraceKeys.tla", "TraceKeys.cfg")


def _denom_record(hbin, vs, scr, name):
    import os, json, vlib
    d = scr.sub("denom-" + name.replace(".cfg", ""))
    inp, out = os.path.join(d, "vectors.json"), os.path.join(d, "rec.ndjson")
    json.dump(vs, open(inp, "w"))
    vlib.harness(hbin, ["denom", "-in", inp, "-out", out])
    return out


def c18_custom(pid, tier, plan, scr, hbin, specdir):
    """C18: (i) TLC checks PairOK for EVERY ordered pair of logical keys of each module's store (layout of
    DESIGN Appendix C) for small id widths / byte alphabets; (ii) TLC enumerates every Set/Del sequence of
    length MaxLen over four symbolic keys per keeper section on the ideal map; the harness executes every
    sequence on the REAL keepers, several times with the symbolic keys instantiated from boundary tables
    (0, 1, 2^63, 2^64-1, byte-reversed ids; address lengths 1..255, one a prefix of the other, sender/receiver
    swapped), reads everything back after every operation; TraceKeys judges against the ideal map."""
    import os, json
    import vlib
    from check_common import classify
    sd = vlib.seed()
    cov = dict(states=0, transitions=0, traces_validated_against_impl=0, samples=[], mc_runs=[], recordings=[],
               steps_validated=0, notes=[], findings_other_properties=0)
    pair_cfgs = ["MC_Keys_pairs_w1.cfg", "MC_Keys_pairs_str_quick.cfg"] if tier == "quick" else \
        ["MC_Keys_pairs_w1.cfg", "MC_Keys_pairs_w2.cfg", "MC_Keys_pairs_w3.cfg", "MC_Keys_pairs_str_quick.cfg", "MC_Keys_pairs_str_full.cfg"]
    for cfg in pair_cfgs:
        r = vlib.mc_exhaustive(specdir, "MC_Keys.tla", cfg, scr, workers=16, timeout=3000)
        cov["mc_runs"].append(r)
        cov["states"] += r["distinct"]
        cov["transitions"] += r["generated"]
    kv = "MC_Keys_kv_quick.cfg" if tier == "quick" else "MC_Keys_kv_full.cfg"
    behs = vlib.bfs_schedules(specdir, "MC_Keys.tla", kv, scr, timeout=3000)
    if not behs:
        raise vlib.Inconclusive("no behaviours from %s (dead driver)" % kv)
    cov["mc_runs"].append(vlib.bfs_schedules.last)
    cov["states"] += vlib.bfs_schedules.last["distinct"]
    cov["transitions"] += vlib.bfs_schedules.last["generated"]
    runs = 3 if tier == "quick" else 5
    d = scr.sub("keys")
    inp, out = os.path.join(d, "behaviours.json"), os.path.join(d, "rec.ndjson")
    json.dump(behs, open(inp, "w"))
    stats = vlib.harness(hbin, ["keys", "-in", inp, "-out", out, "-runs", str(runs), "-seed", str(sd)], timeout=3000)
    try:
        cov["harness_stats"] = json.loads(stats.strip().splitlines()[-1])
    except Exception:
        cov["harness_stats"] = stats[-500:]
    cov["samples"].append(dict(source=kv, behaviour=behs[len(behs) // 2]))
    first = [json.loads(l) for l in open(out).read(200000).splitlines()[:8]]
    cov["samples"].append(dict(source="recording", steps=[dict(a=r["a"], args=r["args"]) for r in first if r["a"] != "KeySample"][:3]))
    recs = [(out, "tlc-enumerated KV behaviours:%s x %d instantiations" % (kv, runs), len(behs) * runs)]
    violations, known_hits = classify(pid, recs, cov, scr, specdir, "TraceKeys.tla", "TraceKeys.cfg")
    # several registrations with records each, exported and re-imported at random block boundaries: after the import every
    # registration must read exactly its own records (Trace.tla; differences in records are tagged C18)
    rec = vlib.record_random(hbin, "expreg", sd, 200 if tier == "quick" else 1200, 3 if tier == "quick" else 10, scr)
    v2, k2 = classify(pid, [(rec, "random:expreg (registrations with records x export/import)", 3 if tier == "quick" else 10)], cov, scr, specdir)
    violations += v2
    known_hits.update(k2)
    return cov, violations, known_hits


PLANS = {
    "C03": dict(mc=both(ENT_MC, ENT_GHOST), extra={"quick": [decision_patterns, signer_list_anomalies, removed_signer_acts, restart_before_completion], "thorough": [decision_patterns, signer_list_anomalies, removed_signer_acts, restart_before_completion]}, sim=ENT_SIM, random=rnd("ent", (300, 3), (2000, 20)),
                rule="TLC exhaustive on MC_Ent (all interleavings of raise/decide/whitelist/gov param change/time advance in small scope); behaviours = TLC-simulated schedules + seeded random histories executed on the real app; non-trivial = a recorded step (one ABCI call) validated against Chain!Step and all C03 monitors",
                assumptions=COMMON_ASSUME),
    "C04": dict(ledger=True, mc=both(FEE_MC, ENT_MC), extra={"quick": [unbalanced_genesis], "thorough": [unbalanced_genesis]}, sim=both(FEE_SIM, ENT_SIM), sweep=FEE_SWEEP, random=rnd("ent", (300, 3), (2000, 20)),
                rule="TLC exhaustive on MC_Fee (orders completing, then fee-paying registry txs with every relation of locked/liquid to the fee, exact/higher/missing/multi-denomination fees, bad signatures, k-th message failing, sends to escrow); view = locked/spent books, totals, escrow balance, registered module invariant", assumptions=COMMON_ASSUME),
    "C05": dict(ledger=True, mc=both(FEE_MC, FEE_GRANT), sim=FEE_SIM, sweep=FEE_SWEEP, random=both(rnd("ent", (300, 4), (2000, 20)), rnd("mix", (200, 2), (1500, 10))),
                rule="as C04 plus vesting purchasers in the random histories; monitors: locked drops only by min(fee, locked) in a registry tx of the payer and equals the spent increase; completion never raises spendable", assumptions=COMMON_ASSUME),
    "C02": dict(ledger=True, mc=both(FEE_MC, ENT_MC), extra={"quick": [decision_patterns, signer_list_anomalies, removed_signer_acts], "thorough": [decision_patterns, signer_list_anomalies, removed_signer_acts]}, sim=both(FEE_SIM, ENT_SIM), sweep=both(FEE_SWEEP, AUTH_SWEEP), random=rnd("mix", (400, 3), (2500, 20)),
                rule="supply and sum of ALL balances (iteration incl. unmodelled accounts) after every step of mixed histories; mint/burn events of every ABCI response equal the supply delta; supply changes only in BeginBlock by the completed orders' amounts", assumptions=COMMON_ASSUME),
    "C13": dict(mc=both(REG_MC, STR_MC, ENT_MC, GRP_MC, FEE_GRANT), extra={"quick": [removed_signer_acts], "thorough": [removed_signer_acts]}, sweep=AUTH_SWEEP, random=rnd("mix", (300, 2), (1500, 10)),
                rule="TLC breadth-first sweep MC_Auth: every message type x every account as signer x every account as named address in three encodings (foreign key, proper signature, Exec wrapper) from a prepared state; each behaviour replayed on the real app; state digest before/after compared", assumptions=COMMON_ASSUME),
    "C14": dict(mc=both(FEE_MC, ENT_MC, ENT_GHOST, REG_GHOST, STR_GHOST), extra={"quick": [extreme_amounts], "thorough": [extreme_amounts]}, sim=both(FEE_SIM, ENT_SIM), sweep=both(FEE_SWEEP, PAR_SWEEP, AUTH_SWEEP), random=rnd("mix", (400, 3), (2500, 20)),
                rule="begin/end block and commit wrapped in recover (a panic is the observation halted); failed and panicking txs compared on the full projection (only ante effects may remain); multi-message txs with the k-th message failing; extreme amounts (orders of 2^62 ... 2^200 nund as decimal strings, minted, locked, partly unlocked, exported and imported) judged by Trace!ExtremeJudge: no begin/end blocker or commit panics, failed transactions and read-only calls leave every module store byte-identical", assumptions=COMMON_ASSUME),
    "C16": dict(mc=both(ENT_GHOST, REG_GHOST, STR_GHOST, REG_DEEP), extra={"quick": [removed_signer_acts, signer_list_anomalies], "thorough": [removed_signer_acts, signer_list_anomalies]}, sweep=PAR_SWEEP, sim=ENT_SIM, random=rnd("mix", (300, 2), (1500, 10)),
                rule="TLC breadth-first sweep MC_Par: parameter structures with each field at/inside/outside its bounds through a real governance proposal, followed by probes of every dependent rule; stored parameters re-validated against the stated rules in every observed state", assumptions=COMMON_ASSUME),
    "C17": dict(mc=FEE_MC, extra={"quick": [many_denominations], "thorough": [many_denominations]}, sim=FEE_SIM, sweep=FEE_SWEEP, random=rnd("mix", (300, 3), (2000, 15)),
                rule="at every block boundary of the corpus the enterprise supply queries (SupplyOf every denomination, EnterpriseSupply, TotalUnlocked, TotalSupply with every page size in key and offset mode) are recorded and checked against bank supply and total locked of the same state", assumptions=COMMON_ASSUME),
    "C07": dict(mc=both(REG_MC), sim=REG_SIM, sweep=REG_SWEEP, random=rnd("reg", (300, 3), (2000, 20)),
                rule="TLC exhaustive on MC_Reg (registrations, records at lower/equal/next/gapped/huge heights by owners and strangers, purchases incl. Exec-wrapped and huge, gov limit changes); TLC-simulated + seeded random schedules executed on the real app; every record ever accepted is re-queried after every step", assumptions=COMMON_ASSUME),
    "C08": dict(mc=both(REG_MC, REG_GHOST, REG_DEEP), sim=REG_SIM, sweep=REG_SWEEP, random=rnd("reg", (300, 3), (2000, 20)),
                rule="as C07; view = counters, limits, reported storage, in-state key sets (point queries and store iteration)", assumptions=COMMON_ASSUME),
    "C09": dict(mc=both(REG_MC, GRP_MC), sim=REG_SIM, sweep=REG_SWEEP, random=rnd("reg", (300, 3), (2000, 20)),
                rule="as C07; view = ids, metadata of every registration ever made, owner-only writes", assumptions=COMMON_ASSUME),
    "C10": dict(arith=True, mc=both(STR_MC, STR_GHOST, GRP_MC), sim=STR_SIM, sweep=STR_SWEEP, random=rnd("str", (300, 3), (2000, 20)),
                rule="TLC exhaustive on MC_Str (create/claim/top-up/rate change/cancel, two denominations, time advances 0/sub-second/seconds/beyond zero time, gov fee changes, sends to escrow); schedules executed on the real app; escrow balance, every stream, balances of all parties and the registered module invariant compared after every step", assumptions=COMMON_ASSUME),
    "C11": dict(arith=True, mc=both(STR_MC, STR_DEEP), sim=STR_SIM, sweep=STR_SWEEP, random=rnd("str", (300, 3), (2000, 20)),
                rule="as C10; view = deposit, last release time, deposit-zero time of every stream, claim responses; monitor Sustained. Big-number region (deposits to 2^200, rates to 2^63-1, durations of thousands of years, nanosecond block times): Apalache finds inputs on which a reading of the Go int64/uint64/Duration arithmetic (mc/ArithAsBuilt.tla) disagrees with StreamArith.tla in three input domains; witnesses + a boundary table are executed on the real app (one signed tx per block) and Apalache judges every recorded step against StreamArith.tla from the observed pre-state (ArithJudge.tla)", assumptions=COMMON_ASSUME + ARITH_ASSUME),
    "C12": dict(arith=True, mc=both(STR_MC, GRP_MC), sim=STR_SIM, sweep=STR_SWEEP, random=rnd("str", (300, 3), (2000, 20)),
                rule="as C10; monitors: a stream operation the specification accepts is not refused by the code, and no stream transaction panics; big-number region as for C11 (verdicts Panicked / Refused of claim, cancel and affordable top-up)", assumptions=COMMON_ASSUME + ARITH_ASSUME),
    "C01": dict(custom=c01_custom,
                rule="TLC exhaustive on MC_Abci (Crash enabled in every phase, Restart from the durable state, re-proposal of the interrupted block; invariants RestartResumesCommitted, DurableAgreesWithReference); behaviours with TLC-chosen crash points and mixed random histories with EVERY crash point are executed on three real replicas (MemDB uninterrupted; goleveldb crashed/restarted with interleaved CheckTx and queries; separate process with GOMAXPROCS=1 started >1.1 s later, with another node-local configuration: genesis invariants not asserted, every registered invariant asserted in every block; the crashed replica also offers every transaction to Simulate and CheckTx before delivering it); app hash at every height, every tx result (code, data, gas wanted/used), and height/hash/state right after each restart are compared by TLC monitors",
                assumptions=COMMON_ASSUME + ["crashes are placed between ABCI calls (inside Commit the atomicity is the SDK/DB's)", "nondeterministic statements on paths no transaction reaches are not observable"]),
    "C20": dict(mc={"quick": [dict(module="MC_Page.tla", cfg="MC_Page_quick.cfg", workers=8, timeout=300)],
                    "thorough": [dict(module="MC_Page.tla", cfg="MC_Page_full.cfg", workers=16, timeout=900)]},
                random=both(rnd("lqmix", (400, 2), (2500, 8)), rnd("lqent", (300, 1), (2000, 4)), rnd("lqreg", (300, 1), (2000, 4)), rnd("lqstr", (300, 1), (2000, 4))),
                rule="TLC exhaustive on MC_Page (Paginate.tla: every store of <= N entries, every filter subset, every limit 1..N+1, key and offset continuation: the paging loop returns every matching entry exactly once in key order); on the real app, in states reached by seeded random histories, EVERY list query of the four modules (purchase orders by status/purchaser, whitelist, WRKChains and BEACONs by owner/moniker, streams / by sender / by receiver) runs with every filter value present (+ an absent one), page limits 1..n+1 (sampled mid-run, all at the end of each run), key and offset continuation; TLC checks each recorded page and continuation key against Paginate.tla given the item list of the same state, item-by-item equality with the point queries, totals, and that the state is unchanged by the queries",
                assumptions=COMMON_ASSUME + ["the order of the stream store is computed independently of the repository's key builders (length-prefixed receiver, sender bytes)"]),
    "C15": dict(custom=c15_custom,
                rule="TLC checks C15State (import assertions hold, round trip is the identity on the four modules' state up to the export cap, second export identical, imported state satisfies every module invariant) in EVERY reachable state of MC_Fee / MC_Reg (export cap 2) / MC_Str; on the real app, TLC-simulated behaviours get an export + import into a fresh default-configured app after every block boundary (one variant each) and seeded random histories at random boundaries; import must not panic, all registered invariants must hold, the second export's enterprise/wrkchain/beacon/stream sections must be identical, projections equal, and the rest of the behaviour runs on both chains in lockstep with equal projections",
                assumptions=COMMON_ASSUME + ["sections of SDK modules in the exported document are not compared", "the 20,000-record export cap is crossed on the real app in one scripted scenario (a WRKChain with 20,010 records) and everywhere in the model (cap 2)"]),
    "C18": dict(custom=c18_custom, replay=c18_replay, trace_module="TraceKeys.tla", trace_cfg="TraceKeys.cfg",
                rule="TLC exhaustive on MC_Keys PairSpec (every ordered pair of logical keys of one module's store for id width W <= 3 and small byte alphabets: injective, no prefix capture by section / per-registration / per-receiver scans, byte order = numeric order, stream keys parse back) and KVSpec (every Set/Del sequence over four symbolic keys per keeper section on the ideal map: non-interference, exact ordered iteration); every KV behaviour is executed on the REAL keepers with the symbolic keys instantiated from boundary tables (ids/heights 0, 1, 2^63, 2^64-1, byte-reversed twins; addresses of lengths 1..255 incl. 20/32/255, proper prefixes of each other; streams with receiver/sender swapped or sharing prefixes); after every operation every key is read back by point reads, iteration/list functions and the stream gRPC list queries; non-trivial = one recorded operation with its complete read-back judged by TraceKeys against Keys.tla",
                assumptions=COMMON_ASSUME[:2] + ["keepers are exercised on a cache branch of a block in progress, not through transactions (addresses of 1..255 bytes cannot sign)", "the real key builders' bytes are compared with the Appendix C layout as notes only; a different alias-free layout is allowed"]),
    "C19": dict(custom=c19_custom, replay=c19_replay, trace_module="TraceDenom.tla", trace_cfg="TraceDenom.cfg",
                rule="TLC checks DenomProps (round trip, pure point shift, representation independence, agreement with integer arithmetic where it fits) for EVERY decimal input of the bounded configurations of MC_Denom and emits the conformance vector of every explored input, plus tlc -simulate vectors with 5..30 significant digits and every fractional length 0..9; every vector is converted by the REAL ConvertUndDenomination (fund->nund, nund->fund, there and back); TraceDenom re-derives the expected strings from the digit sequences (VectorsFromSpec) and compares strings; non-trivial = one distinct vector",
                assumptions=["the function under test is pure; TLC, the Go toolchain and the harness' suffix/leading-zero stripping are trusted",
                             "inputs are plain non-negative decimal strings (no exponent, sign or separators) with at most nine fractional digits and at most 30 significant digits"]),
    "C06": dict(custom=c06_custom,
                rule="TLC (MC_Adm) enumerates every CheckTx input of the bounded input space (message sequences x fee classes x extra denomination x payer classes x two fee presets) and checks meta-properties of the ideal admission rule; every enumerated input (quick: all singles + a seeded sample of pairs) is offered to the real app.CheckTx on a committed prepared state; violation = admitted by the code and refused by the ideal rule; non-trivial = a distinct input",
                assumptions=COMMON_ASSUME + ["only the direction 'code admits and the ideal rule refuses' is a violation; the converse is logged as a note"]),
}

HOOK_COMMITS = []
NOT_APPLICABLE = {}
