"""Per-property check plans: which bounded configurations TLC explores exhaustively on the ideal
specification, which schedule generators feed the real application, and with which bounds per tier."""

COMMON_ASSUME = [
    "Cosmos SDK, CometBFT and IAVL are trusted; their observable effect on balances, supply and accounts is compared",
    "the Go harness drives a real app.App through real ABCI calls with really signed transactions; its projection reads state only through public query/keeper API after each call returned",
    "TLC integers are 32-bit: scenario amounts are small; large values enter through the saturating abstraction of DESIGN 3.3",
]

ENT_MC = {"quick": [dict(module="MC_Ent.tla", cfg="MC_Ent_quick.cfg", workers=16, timeout=600)],
          "thorough": [dict(module="MC_Ent.tla", cfg="MC_Ent_full.cfg", workers=16, timeout=3000)]}
ENT_SIM = {"quick": [dict(module="MC_Ent.tla", cfg="MC_Ent_sim.cfg", num=40, depth=120, procs=4)],
           "thorough": [dict(module="MC_Ent.tla", cfg="MC_Ent_sim.cfg", num=600, depth=160, procs=12)]}


REG_MC = {"quick": [dict(module="MC_Reg.tla", cfg="MC_Reg_quick.cfg", workers=16, timeout=600)],
          "thorough": [dict(module="MC_Reg.tla", cfg="MC_Reg_full.cfg", workers=16, timeout=3000)]}
REG_SIM = {"quick": [dict(module="MC_Reg.tla", cfg="MC_Reg_sim.cfg", num=40, depth=150, procs=4)],
           "thorough": [dict(module="MC_Reg.tla", cfg="MC_Reg_sim.cfg", num=600, depth=200, procs=12)]}
STR_MC = {"quick": [dict(module="MC_Str.tla", cfg="MC_Str_quick.cfg", workers=16, timeout=600)],
          "thorough": [dict(module="MC_Str.tla", cfg="MC_Str_full.cfg", workers=16, timeout=3000)]}
STR_SIM = {"quick": [dict(module="MC_Str.tla", cfg="MC_Str_sim.cfg", num=40, depth=150, procs=4)],
           "thorough": [dict(module="MC_Str.tla", cfg="MC_Str_sim.cfg", num=600, depth=200, procs=12)]}
STR_SWEEP = {"quick": [dict(module="SW_Str.tla", cfg="SW_Str.cfg")], "thorough": [dict(module="SW_Str.tla", cfg="SW_Str.cfg")]}
REG_SWEEP = {"quick": [dict(module="SW_Reg.tla", cfg="SW_Reg.cfg")], "thorough": [dict(module="SW_Reg.tla", cfg="SW_Reg.cfg")]}
FEE_MC = {"quick": [dict(module="MC_Fee.tla", cfg="MC_Fee_quick.cfg", workers=16, timeout=600)],
          "thorough": [dict(module="MC_Fee.tla", cfg="MC_Fee_full.cfg", workers=16, timeout=3000)]}
FEE_SIM = {"quick": [dict(module="MC_Fee.tla", cfg="MC_Fee_sim.cfg", num=30, depth=150, procs=4)],
           "thorough": [dict(module="MC_Fee.tla", cfg="MC_Fee_sim.cfg", num=500, depth=200, procs=12)]}
FEE_SWEEP = {"quick": [dict(module="SW_Fee.tla", cfg="SW_Fee.cfg")], "thorough": [dict(module="SW_Fee.tla", cfg="SW_Fee.cfg")]}
AUTH_SWEEP = {"quick": [dict(module="MC_Auth.tla", cfg="MC_Auth.cfg")], "thorough": [dict(module="MC_Auth.tla", cfg="MC_Auth.cfg")]}
PAR_SWEEP = {"quick": [dict(module="MC_Par.tla", cfg="MC_Par.cfg")], "thorough": [dict(module="MC_Par.tla", cfg="MC_Par.cfg")]}


def both(*dicts):
    out = {"quick": [], "thorough": []}
    for d in dicts:
        for t in out:
            out[t] += d.get(t, [])
    return out



def rnd(profile, quick, thorough):
    return {"quick": [dict(profile=profile, steps=quick[0], runs=quick[1])],
            "thorough": [dict(profile=profile, steps=thorough[0], runs=thorough[1])]}


def c06_custom(pid, tier, plan, scr, hbin, specdir):
    """C06: TLC enumerates CheckTx inputs one per behaviour (common prefix); they are packed into one
    behaviour per preset (prefix once, then every input followed by an empty block when admitted)."""
    import json, random, os
    import vlib
    from check_common import classify
    sd = vlib.seed()
    cov = dict(states=0, transitions=0, traces_validated_against_impl=0, samples=[], mc_runs=[], recordings=[],
               steps_validated=0, inputs_offered_to_checktx=0, admitted=0, notes=[], findings_other_properties=0)
    cfgs = [("MC_Adm_1F.cfg", None), ("MC_Adm_1T.cfg", None), ("MC_Adm_2F.cfg", 1200 if tier == "quick" else None),
            ("MC_Adm_2T.cfg", 800 if tier == "quick" else None)]
    if tier == "thorough":
        cfgs += [("MC_Adm_3F.cfg", 20000)]
    recs = []
    for cfg, sample in cfgs:
        behs = vlib.bfs_schedules(specdir, "MC_Adm.tla", cfg, scr, timeout=1500)
        cov["mc_runs"].append(vlib.bfs_schedules.last)
        cov["states"] += vlib.bfs_schedules.last["distinct"]
        cov["transitions"] += vlib.bfs_schedules.last["generated"]
        prefix = behs[0][:-1]
        inputs = [b[-1] for b in behs]
        if sample and len(inputs) > sample:
            random.Random(sd).shuffle(inputs)
            inputs = inputs[:sample]
        packed = list(prefix) + [dict(ev, reset=True) for ev in inputs]
        rec, _ = vlib.record_behaviours(hbin, [packed], scr, name="adm-" + cfg.replace(".cfg", ""))
        recs.append((rec, "tlc-enumerated CheckTx inputs:" + cfg, len(inputs)))
        cov["inputs_offered_to_checktx"] += len(inputs)
        if len(cov["samples"]) < 3:
            cov["samples"].append(dict(source=cfg, input=inputs[0]))
    cov["exhaustive"] = tier == "thorough"
    violations, known_hits = classify(pid, recs, cov, scr, specdir)
    return cov, violations, known_hits


def crash_variants(beh, cap, rng):
    """All placements of one crash in a crash-free behaviour: after BeginBlock, after the k-th DeliverTx,
    after EndBlock, after Commit - followed by Restart and the re-proposal of the interrupted block
    (behaviours of MC_Abci's Crash / Restart / Replay actions)."""
    out = []
    last_commit = 0
    points = []
    for i, ev in enumerate(beh):
        if ev["a"] == "Commit":
            points.append((i, i))       # crash after Commit: nothing to replay
            last_commit = i
        elif ev["a"] in ("BeginBlock", "DeliverTx", "EndBlock"):
            points.append((i, last_commit))
    if len(points) > cap:
        points = rng.sample(points, cap)
    for p, lc in sorted(points):
        replay = beh[lc + 1:p + 1] if p != lc else []
        out.append(beh[:p + 1] + [{"a": "Crash"}, {"a": "Restart"}] + replay + beh[p + 1:])
    return out


def export_variants(beh, cap, rng):
    """One behaviour per block boundary: export + re-import right after that Commit, the rest of the
    behaviour then runs on both chains in lockstep."""
    idx = [i for i, ev in enumerate(beh) if ev["a"] == "Commit"]
    if len(idx) > cap:
        idx = sorted(rng.sample(idx, cap))
    return [beh[:i + 1] + [{"a": "ExportImport"}] + beh[i + 1:] for i in idx]


def c15_custom(pid, tier, plan, scr, hbin, specdir):
    import json, random
    import vlib
    from check_common import classify
    sd = vlib.seed()
    rng = random.Random(sd)
    cov = dict(states=0, transitions=0, traces_validated_against_impl=0, samples=[], mc_runs=[], recordings=[],
               steps_validated=0, notes=[], findings_other_properties=0, export_import_round_trips=0)
    for mc in ((FEE_MC[tier] if tier == "thorough" else []) + REG_MC[tier] + STR_MC[tier]):
        r = vlib.mc_exhaustive(specdir, mc["module"], mc["cfg"], scr, workers=16, timeout=mc.get("timeout", 900))
        cov["mc_runs"].append(r)
        cov["states"] += r["distinct"]
        cov["transitions"] += r["generated"]
    recs = []
    nsim, cap = (8, 4) if tier == "quick" else (60, 12)
    for mod, cfg in (("MC_Fee.tla", "MC_Fee_sim.cfg"), ("MC_Reg.tla", "MC_Reg_sim.cfg"), ("MC_Str.tla", "MC_Str_sim.cfg")):
        behs = vlib.sim_schedules(specdir, mod, cfg, scr, nsim, 160, sd, procs=4)
        variants = []
        for b in behs:
            variants += export_variants(b, cap, rng)
        if not variants:
            raise vlib.Inconclusive("no behaviours for " + cfg)
        rec, _ = vlib.record_behaviours(hbin, variants, scr, name="exp-" + cfg.replace(".cfg", ""))
        recs.append((rec, "tlc-simulate:%s x export/import at every block boundary" % cfg, len(variants)))
        cov["export_import_round_trips"] += len(variants)
        if len(cov["samples"]) < 2:
            cov["samples"].append(dict(source=cfg, behaviour=variants[len(variants) // 2][1:16]))
    for prof, (steps, runs) in (("expmix", (250, 3) if tier == "quick" else (1500, 12)), ("expreg", (150, 2) if tier == "quick" else (1000, 8))):
        rec = vlib.record_random(hbin, prof, sd, steps, runs, scr)
        n = sum(1 for l in open(rec) if l.startswith('{"a":"ExportImport"'))
        recs.append((rec, "random:" + prof, runs))
        cov["export_import_round_trips"] += n
    violations, known_hits = classify(pid, recs, cov, scr, specdir)
    return cov, violations, known_hits


def c01_custom(pid, tier, plan, scr, hbin, specdir):
    import json, os, random
    import vlib
    from check_common import classify
    sd = vlib.seed()
    rng = random.Random(sd)
    cov = dict(states=0, transitions=0, traces_validated_against_impl=0, samples=[], mc_runs=[], recordings=[],
               steps_validated=0, notes=[], findings_other_properties=0, crash_points_executed=0, replicas=3)
    mc = vlib.mc_exhaustive(specdir, "MC_Abci.tla", "MC_Abci_quick.cfg" if tier == "quick" else "MC_Abci_full.cfg", scr, workers=16, timeout=3000)
    cov["mc_runs"].append(mc)
    cov["states"] += mc["distinct"]
    cov["transitions"] += mc["generated"]
    recs = []

    def twin(behs, name, source):
        d = scr.sub(name)
        inp, out = os.path.join(d, "behaviours.json"), os.path.join(d, "rec.ndjson")
        json.dump(behs, open(inp, "w"))
        vlib.harness(hbin, ["twin", "-in", inp, "-out", out], timeout=3000)
        recs.append((out, source, len(behs)))
        cov["crash_points_executed"] += sum(1 for b in behs for e in b if e["a"] == "Crash")

    # (1) TLC-simulated behaviours of MC_Abci with the crash points TLC chose
    behs = vlib.sim_schedules(specdir, "MC_Abci.tla", "MC_Abci_sim.cfg", scr, 30 if tier == "quick" else 200, 140, sd, procs=4 if tier == "quick" else 12)
    if not behs:
        raise vlib.Inconclusive("no behaviours from MC_Abci_sim (dead driver)")
    cov["samples"].append(dict(source="tlc-simulate MC_Abci_sim.cfg", behaviour=[e for e in behs[0][1:20]]))
    twin(behs, "twin-sim", "tlc-simulate:MC_Abci_sim.cfg on replicas A/B/C")
    # (2) long mixed histories from the seeded random driver, every crash point of every block
    nh, steps, cap = (2, 60, 30) if tier == "quick" else (12, 160, 400)
    rec = vlib.record_random(hbin, "mix", sd, steps, nh, scr)
    lines = [json.loads(l) for l in open(rec)]
    hists, cur = [], []
    for r in lines:
        if r["a"] == "InitChain" and cur:
            hists.append(cur)
            cur = []
        cur.append(r["args"])
    hists.append(cur)
    variants = []
    for h in hists:
        variants += crash_variants(h, cap, rng)
    twin(variants, "twin-allpoints", "random mixed histories x every crash point on replicas A/B/C")
    violations, known_hits = classify(pid, recs, cov, scr, specdir)
    return cov, violations, known_hits


PLANS = {
    "C03": dict(mc=ENT_MC, sim=ENT_SIM, random=rnd("ent", (300, 3), (2000, 20)),
                rule="TLC exhaustive on MC_Ent (all interleavings of raise/decide/whitelist/gov param change/time advance in small scope); behaviours = TLC-simulated schedules + seeded random histories executed on the real app; non-trivial = a recorded step (one ABCI call) validated against Chain!Step and all C03 monitors",
                assumptions=COMMON_ASSUME),
    "C04": dict(mc=FEE_MC, sim=both(FEE_SIM, ENT_SIM), sweep=FEE_SWEEP, random=rnd("ent", (300, 3), (2000, 20)),
                rule="TLC exhaustive on MC_Fee (orders completing, then fee-paying registry txs with every relation of locked/liquid to the fee, exact/higher/missing/multi-denomination fees, bad signatures, k-th message failing, sends to escrow); view = locked/spent books, totals, escrow balance, registered module invariant", assumptions=COMMON_ASSUME),
    "C05": dict(mc=FEE_MC, sim=FEE_SIM, sweep=FEE_SWEEP, random=both(rnd("ent", (300, 4), (2000, 20)), rnd("mix", (200, 2), (1500, 10))),
                rule="as C04 plus vesting purchasers in the random histories; monitors: locked drops only by min(fee, locked) in a registry tx of the payer and equals the spent increase; completion never raises spendable", assumptions=COMMON_ASSUME),
    "C02": dict(mc=both(FEE_MC), sim=both(FEE_SIM, ENT_SIM), sweep=both(FEE_SWEEP, AUTH_SWEEP), random=rnd("mix", (400, 3), (2500, 20)),
                rule="supply and sum of ALL balances (iteration incl. unmodelled accounts) after every step of mixed histories; mint/burn events of every ABCI response equal the supply delta; supply changes only in BeginBlock by the completed orders' amounts", assumptions=COMMON_ASSUME),
    "C13": dict(sweep=AUTH_SWEEP, random=rnd("mix", (300, 2), (1500, 10)),
                rule="TLC breadth-first sweep MC_Auth: every message type x every account as signer x every account as named address in three encodings (foreign key, proper signature, Exec wrapper) from a prepared state; each behaviour replayed on the real app; state digest before/after compared", assumptions=COMMON_ASSUME),
    "C14": dict(mc=both(FEE_MC, ENT_MC), sim=both(FEE_SIM, ENT_SIM), sweep=both(FEE_SWEEP, PAR_SWEEP), random=rnd("mix", (400, 3), (2500, 20)),
                rule="begin/end block and commit wrapped in recover (a panic is the observation halted); failed and panicking txs compared on the full projection (only ante effects may remain); multi-message txs with the k-th message failing", assumptions=COMMON_ASSUME),
    "C16": dict(sweep=PAR_SWEEP, sim=ENT_SIM, random=rnd("mix", (300, 2), (1500, 10)),
                rule="TLC breadth-first sweep MC_Par: parameter structures with each field at/inside/outside its bounds through a real governance proposal, followed by probes of every dependent rule; stored parameters re-validated against the stated rules in every observed state", assumptions=COMMON_ASSUME),
    "C17": dict(mc=FEE_MC, sim=FEE_SIM, sweep=FEE_SWEEP, random=rnd("mix", (300, 3), (2000, 15)),
                rule="at every block boundary of the corpus the enterprise supply queries (SupplyOf every denomination, EnterpriseSupply, TotalUnlocked, TotalSupply with every page size in key and offset mode) are recorded and checked against bank supply and total locked of the same state", assumptions=COMMON_ASSUME),
    "C07": dict(mc=REG_MC, sim=REG_SIM, sweep=REG_SWEEP, random=rnd("reg", (300, 3), (2000, 20)),
                rule="TLC exhaustive on MC_Reg (registrations, records at lower/equal/next/gapped/huge heights by owners and strangers, purchases incl. Exec-wrapped and huge, gov limit changes); TLC-simulated + seeded random schedules executed on the real app; every record ever accepted is re-queried after every step", assumptions=COMMON_ASSUME),
    "C08": dict(mc=REG_MC, sim=REG_SIM, sweep=REG_SWEEP, random=rnd("reg", (300, 3), (2000, 20)),
                rule="as C07; view = counters, limits, reported storage, in-state key sets (point queries and store iteration)", assumptions=COMMON_ASSUME),
    "C09": dict(mc=REG_MC, sim=REG_SIM, sweep=REG_SWEEP, random=rnd("reg", (300, 3), (2000, 20)),
                rule="as C07; view = ids, metadata of every registration ever made, owner-only writes", assumptions=COMMON_ASSUME),
    "C10": dict(mc=STR_MC, sim=STR_SIM, sweep=STR_SWEEP, random=rnd("str", (300, 3), (2000, 20)),
                rule="TLC exhaustive on MC_Str (create/claim/top-up/rate change/cancel, two denominations, time advances 0/sub-second/seconds/beyond zero time, gov fee changes, sends to escrow); schedules executed on the real app; escrow balance, every stream, balances of all parties and the registered module invariant compared after every step", assumptions=COMMON_ASSUME),
    "C11": dict(mc=STR_MC, sim=STR_SIM, sweep=STR_SWEEP, random=rnd("str", (300, 3), (2000, 20)),
                rule="as C10; view = deposit, last release time, deposit-zero time of every stream, claim responses; monitor Sustained", assumptions=COMMON_ASSUME),
    "C12": dict(mc=STR_MC, sim=STR_SIM, sweep=STR_SWEEP, random=rnd("str", (300, 3), (2000, 20)),
                rule="as C10; monitors: a stream operation the specification accepts is not refused by the code, and no stream transaction panics", assumptions=COMMON_ASSUME),
    "C01": dict(custom=c01_custom,
                rule="TLC exhaustive on MC_Abci (Crash enabled in every phase, Restart from the durable state, re-proposal of the interrupted block; invariants RestartResumesCommitted, DurableAgreesWithReference); behaviours with TLC-chosen crash points and mixed random histories with EVERY crash point are executed on three real replicas (MemDB uninterrupted; goleveldb crashed/restarted with interleaved CheckTx and queries; separate process with GOMAXPROCS=1 started >1.1 s later); app hash at every height, every tx result (code, data, gas wanted/used), and height/hash/state right after each restart are compared by TLC monitors",
                assumptions=COMMON_ASSUME + ["crashes are placed between ABCI calls (inside Commit the atomicity is the SDK/DB's)", "nondeterministic statements on paths no transaction reaches are not observable"]),
    "C20": dict(mc={"quick": [dict(module="MC_Page.tla", cfg="MC_Page_quick.cfg", workers=8, timeout=300)],
                    "thorough": [dict(module="MC_Page.tla", cfg="MC_Page_full.cfg", workers=16, timeout=900)]},
                random=both(rnd("lqmix", (400, 2), (2500, 8)), rnd("lqent", (300, 1), (2000, 4)), rnd("lqreg", (300, 1), (2000, 4)), rnd("lqstr", (300, 1), (2000, 4))),
                rule="TLC exhaustive on MC_Page (Paginate.tla: every store of <= N entries, every filter subset, every limit 1..N+1, key and offset continuation: the paging loop returns every matching entry exactly once in key order); on the real app, in states reached by seeded random histories, EVERY list query of the four modules (purchase orders by status/purchaser, whitelist, WRKChains and BEACONs by owner/moniker, streams / by sender / by receiver) runs with every filter value present (+ an absent one), page limits 1..n+1 (sampled mid-run, all at the end of each run), key and offset continuation; TLC checks each recorded page and continuation key against Paginate.tla given the item list of the same state, item-by-item equality with the point queries, totals, and that the state is unchanged by the queries",
                assumptions=COMMON_ASSUME + ["the order of the stream store is computed independently of the repository's key builders (length-prefixed receiver, sender bytes)"]),
    "C15": dict(custom=c15_custom,
                rule="TLC checks C15State (import assertions hold, round trip is the identity on the four modules' state up to the export cap, second export identical, imported state satisfies every module invariant) in EVERY reachable state of MC_Fee / MC_Reg (export cap 2) / MC_Str; on the real app, TLC-simulated behaviours get an export + import into a fresh default-configured app after every block boundary (one variant each) and seeded random histories at random boundaries; import must not panic, all registered invariants must hold, the second export's enterprise/wrkchain/beacon/stream sections must be identical, projections equal, and the rest of the behaviour runs on both chains in lockstep with equal projections",
                assumptions=COMMON_ASSUME + ["sections of SDK modules in the exported document are not compared", "the 20,000-record export cap is crossed only in the model (cap 2), not on the real app"]),
    "C06": dict(custom=c06_custom,
                rule="TLC (MC_Adm) enumerates every CheckTx input of the bounded input space (message sequences x fee classes x extra denomination x payer classes x two fee presets) and checks meta-properties of the ideal admission rule; every enumerated input (quick: all singles + a seeded sample of pairs) is offered to the real app.CheckTx on a committed prepared state; violation = admitted by the code and refused by the ideal rule; non-trivial = a distinct input",
                assumptions=COMMON_ASSUME + ["only the direction 'code admits and the ideal rule refuses' is a violation; the converse is logged as a note"]),
}

HOOK_COMMITS = []
NOT_APPLICABLE = {}
