#!/usr/bin/env python3
"""Prints the catch matrix (markdown) from seeded/*/meta.json + result.json; DESIGN.md section 17 is its output."""
import json, os, glob, re
ROOT = os.path.dirname(os.path.dirname(os.path.abspath(__file__)))
rows = []
for d in sorted(glob.glob(os.path.join(ROOT, "seeded", "*"))):
    try:
        m = json.load(open(os.path.join(d, "meta.json")))
        r = json.load(open(os.path.join(d, "result.json")))
    except Exception:
        continue
    how = ""
    for x in r.get("ran", []):
        if x.get("exit") == 1 and x.get("findings"):
            f = x["findings"][0]
            src = re.search(r"source=(.*?) line=", f)
            det = re.search(r"layer=(\S+) detail=(.*?) event=", f)
            how = "%s: %s %s" % (src.group(1) if src else "?", det.group(1) if det else "", det.group(2)[:60] if det else "")
            break
    needs = (m.get("needs_to_manifest") or "").split(". ")[0][:150]
    summ = (m.get("summary") or "").split(". ")[0][:170]
    rows.append("| %s | %s | %s | %s | %s |" % (os.path.basename(d), m.get("property"), summ.replace("|", "/"), needs.replace("|", "/"),
                                           ("**%s** (%s) - %s" % (",".join(r.get("caught_by", [])), "quick", how.replace("|", "/"))) if r.get("caught_by") else "MISSED"))
print("| seeded change | property | what was changed | needs to manifest | caught by |")
print("|---|---|---|---|---|")
print("\n".join(rows))
