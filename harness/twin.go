package main

// twin: C01. Every behaviour (with the crash points TLC chose) is executed on three real replicas:
//   A  MemDB, in-process, never interrupted (crash-free projection of the behaviour)
//   B  goleveldb in a scratch directory, crashed/restarted where the behaviour says, with CheckTx
//      calls and queries interleaved between its DeliverTx calls; every transaction is offered to Simulate and to
//      CheckTx before it is delivered (a node that saw the transaction in its mempool and served a gas estimate)
//   C  separate OS process, GOMAXPROCS=1, started >= 1.1 s later, MemDB, with another node-local configuration:
//      genesis invariants not asserted (--x-crisis-skip-assert-invariants), every invariant asserted in every second block
//      (--inv-check-period 2); its process runs in another local time zone and locale
// B's recording carries A's and C's app hash / tx results next to its own so that the verdict is
// computed by TLC (Trace.tla monitors ReplicasAgree / RestartResumesCommitted).

import (
	"bufio"
	"bytes"
	"encoding/hex"
	"encoding/json"
	"flag"
	"fmt"
	"os"
	"os/exec"
	"time"

	abci "github.com/cometbft/cometbft/abci/types"
)

func init() {
	extraCmds["twin"] = cmdTwin
	extraCmds["replica"] = cmdReplica
}

type RefRun struct {
	Hash map[int64]string `json:"hash"` // height -> app hash after Commit
	Tx   map[string]TxRaw `json:"tx"`   // "height/idx" -> raw result
}
type TxRaw struct {
	Code uint32 `json:"code"`
	Data string `json:"data"`
	GasW int64  `json:"gasW"`
	GasU int64  `json:"gasU"`
}

// crashFree drops Crash/Restart and the events of blocks that were aborted by a crash.
func crashFree(b []M) []M {
	var out, cur []M
	for _, ev := range b {
		switch mStr(ev, "a") {
		case "InitChain":
			out = append(out, ev)
		case "Commit":
			out = append(out, cur...)
			out = append(out, ev)
			cur = nil
		case "Crash":
		case "Restart":
			cur = nil
		default:
			cur = append(cur, ev)
		}
	}
	return append(out, cur...)
}

// runRef executes a crash-free behaviour and returns hashes and raw tx results.
func runRef(b []M, db string, local M) (*RefRun, error) {
	ref := &RefRun{Hash: map[int64]string{}, Tx: map[string]TxRaw{}}
	r := NewRunner(nil)
	r.NoProj = true
	idx := 0
	for i, ev := range b {
		ev = roundTrip(ev)
		if mStr(ev, "a") == "InitChain" && db != "" {
			g := mMap(ev, "g")
			if g == nil && len(local) > 0 {
				bz, _ := json.Marshal(DefaultGenSpec())
				g = M{}
				dec := json.NewDecoder(bytes.NewReader(bz))
				dec.UseNumber()
				dec.Decode(&g)
				ev["g"] = g
			}
			if g != nil {
				g["db"] = db
				for k, v := range local {
					g[k] = v
				}
			}
		}
		if err := r.Step(ev); err != nil {
			return nil, fmt.Errorf("ref step %d: %w", i, err)
		}
		if r.W != nil && r.W.Halted {
			break
		}
		last := r.Raw[len(r.Raw)-1]
		res := last["res"].(J)
		switch mStr(ev, "a") {
		case "BeginBlock":
			idx = 0
		case "DeliverTx":
			ref.Tx[fmt.Sprintf("%d/%d", r.W.Height, idx)] = TxRaw{Code: uint32(res["code"].(int64)), Data: res["rawData"].(string),
				GasW: res["gasW"].(int64), GasU: res["gasU"].(int64)}
			idx++
		case "Commit":
			ref.Hash[r.W.App.LastBlockHeight()] = res["hash"].(string)
		}
	}
	if r.W != nil {
		r.W.Close()
	}
	return ref, nil
}

// cmdReplica: replica C - runs crash-free behaviours and prints the reference runs as JSON.
func cmdReplica(fs *flag.FlagSet, in, out string, seed int64) error {
	var behaviours [][]M
	if err := readJSON(in, &behaviours); err != nil {
		return err
	}
	var refs []*RefRun
	for i, b := range behaviours {
		if len(b) > 0 {
			if g := mMap(b[0], "g"); g != nil {
				if until := mI64(g, "waitUntil"); until > 0 {
					for time.Now().Unix() < until {
						time.Sleep(100 * time.Millisecond)
					}
				}
			}
		}
		ref, err := runRef(b, "mem", M{"skipInv": true, "invPeriod": 2})
		if err != nil {
			return fmt.Errorf("behaviour %d: %w", i, err)
		}
		refs = append(refs, ref)
	}
	bz, _ := json.Marshal(refs)
	return os.WriteFile(out, bz, 0o644)
}

func cmdTwin(fs *flag.FlagSet, in, out string, seed int64) error {
	var behaviours [][]M
	if err := readJSON(in, &behaviours); err != nil {
		return err
	}
	start := time.Now()
	free := make([][]M, len(behaviours))
	for i, b := range behaviours {
		free[i] = crashFree(b)
	}
	// replica A in-process
	refA := make([]*RefRun, len(behaviours))
	for i := range behaviours {
		ref, err := runRef(free[i], "mem", nil)
		if err != nil {
			return fmt.Errorf("replica A, behaviour %d: %w", i, err)
		}
		refA[i] = ref
	}
	// replica C: other process, one CPU, later wall-clock second
	tmpIn, tmpOut := out+".c-in.json", out+".c-out.json"
	bz, _ := json.Marshal(free)
	if err := os.WriteFile(tmpIn, bz, 0o644); err != nil {
		return err
	}
	if d := time.Since(start); d < 1100*time.Millisecond {
		time.Sleep(1100*time.Millisecond - d)
	}
	self, _ := os.Executable()
	cmd := exec.Command(self, "replica", "-in", tmpIn, "-out", tmpOut)
	cmd.Env = append(os.Environ(), "GOMAXPROCS=1", "TZ=Asia/Kolkata", "LANG=tr_TR.UTF-8") // another local time zone and locale
	cmd.Stderr = os.Stderr
	if err := cmd.Run(); err != nil {
		return fmt.Errorf("replica C: %w", err)
	}
	var refC []*RefRun
	if err := readJSONPlain(tmpOut, &refC); err != nil {
		return err
	}
	os.Remove(tmpIn)
	os.Remove(tmpOut)

	// replica B with crashes, recorded
	f, err := os.Create(out)
	if err != nil {
		return err
	}
	defer f.Close()
	bw := bufio.NewWriterSize(f, 1<<20)
	defer bw.Flush()
	r := NewRunner(bw)
	r.PreCheck = true
	for i, b := range behaviours {
		r.Annot = func(ev M, res J) {
			w := r.W
			switch mStr(ev, "a") {
			case "DeliverTx":
				key := fmt.Sprintf("%d/%d", w.Height, r.txIdx-1)
				res["raw"] = rawJ(TxRaw{Code: uint32(res["code"].(int64)), Data: res["rawData"].(string), GasW: res["gasW"].(int64), GasU: res["gasU"].(int64)})
				if a, ok := refA[i].Tx[key]; ok {
					res["refA"] = rawJ(a)
				} else {
					res["refA"] = J{"missing": true}
				}
				if c, ok := refC[i].Tx[key]; ok {
					res["refC"] = rawJ(c)
				} else {
					res["refC"] = J{"missing": true}
				}
				// interleave a CheckTx on this replica only: it must not influence any result
				r.interleaveCheckTx()
			case "Commit":
				h := w.App.LastBlockHeight()
				res["refHashA"] = refA[i].Hash[h]
				res["refHashC"] = refC[i].Hash[h]
			case "Restart":
				h := w.App.LastBlockHeight()
				if h >= 3 {
					res["refHashA"] = refA[i].Hash[h]
				} else {
					res["refHashA"] = res["hash"] // genesis / first empty block are not part of the schedule
				}
			}
		}
		for j, ev := range b {
			ev = roundTrip(ev)
			if mStr(ev, "a") == "InitChain" {
				if g := mMap(ev, "g"); g != nil {
					g["db"] = "goleveldb"
				}
			}
			if err := r.Step(ev); err != nil {
				return fmt.Errorf("replica B, behaviour %d step %d: %w", i, j, err)
			}
			if r.W != nil && r.W.Halted {
				break
			}
		}
	}
	if r.W != nil {
		r.W.Close()
	}
	return nil
}

func rawJ(t TxRaw) J {
	return J{"code": int64(t.Code), "data": t.Data, "gasW": t.GasW, "gasU": t.GasU}
}

func readJSONPlain(path string, v interface{}) error {
	bz, err := os.ReadFile(path)
	if err != nil {
		return err
	}
	return json.Unmarshal(bz, v)
}

// interleaveCheckTx offers a valid bank send by V to CheckTx (mempool state), between DeliverTx calls.
func (r *Runner) interleaveCheckTx() {
	w := r.W
	defer func() { recover() }()
	t := parseTxSpec(roundTrip(M{"msgs": []interface{}{M{"t": "Send", "from": "V", "to": "A1", "amt": 1, "denom": StakeDen}}}))
	bz, _, err := w.BuildTx(w.App.NewContext(true, w.header()), t)
	if err != nil {
		return
	}
	w.App.CheckTx(abci.RequestCheckTx{Tx: bz, Type: abci.CheckTxType_New})
}

var _ = hex.EncodeToString
