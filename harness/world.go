package main

// World: one real app.App driven through real ABCI calls, plus the bookkeeping the
// harness needs to build and sign transactions (deterministic keys per model account).

import (
	stded25519 "crypto/ed25519"
	"crypto/sha256"
	"encoding/json"
	"fmt"
	sdked25519 "github.com/cosmos/cosmos-sdk/crypto/keys/ed25519"
	"os"
	"sort"
	"strings"
	"time"

	dbm "github.com/cometbft/cometbft-db"
	abci "github.com/cometbft/cometbft/abci/types"
	"github.com/cometbft/cometbft/libs/log"
	tmproto "github.com/cometbft/cometbft/proto/tendermint/types"
	tmtypes "github.com/cometbft/cometbft/types"
	"github.com/cosmos/cosmos-sdk/baseapp"
	"github.com/cosmos/cosmos-sdk/client/flags"
	"github.com/cosmos/cosmos-sdk/crypto/keys/secp256k1"
	cryptotypes "github.com/cosmos/cosmos-sdk/crypto/types"
	"github.com/cosmos/cosmos-sdk/server"
	simtestutil "github.com/cosmos/cosmos-sdk/testutil/sims"
	sdk "github.com/cosmos/cosmos-sdk/types"
	authtypes "github.com/cosmos/cosmos-sdk/x/auth/types"
	vestingtypes "github.com/cosmos/cosmos-sdk/x/auth/vesting/types"
	banktypes "github.com/cosmos/cosmos-sdk/x/bank/types"
	crisistypes "github.com/cosmos/cosmos-sdk/x/crisis/types"
	distrtypes "github.com/cosmos/cosmos-sdk/x/distribution/types"
	govtypes "github.com/cosmos/cosmos-sdk/x/gov/types"
	govv1 "github.com/cosmos/cosmos-sdk/x/gov/types/v1"
	"github.com/cosmos/cosmos-sdk/x/group"
	stakingtypes "github.com/cosmos/cosmos-sdk/x/staking/types"
	"github.com/cosmos/ibc-go/v7/testing/mock"

	"github.com/unification-com/mainchain/app"
	beacontypes "github.com/unification-com/mainchain/x/beacon/types"
	enttypes "github.com/unification-com/mainchain/x/enterprise/types"
	streamtypes "github.com/unification-com/mainchain/x/stream/types"
	wrkchaintypes "github.com/unification-com/mainchain/x/wrkchain/types"
)

const (
	ChainID   = "verif-1"
	StakeDen  = "stake"
	VotingSec = 2 // gov voting period in seconds
)

// T0Unix is model time 0 (unix seconds). A genesis may move it (GenSpec.T0): the wall-clock scenarios of C01 place the
// chain's deadlines a few seconds after the real clock.
var T0Unix = int64(1700000000)

// Denoms is the list of denominations the projection reports.
var Denoms = []string{"nund", "other"}

type Acct struct {
	Name string
	Priv cryptotypes.PrivKey
	Addr sdk.AccAddress
}

// GenSpec is the abstract genesis taken from a schedule's InitChain step.
type GenSpec struct {
	Accts   []string                    `json:"accts"`
	Bal     map[string]map[string]int64 `json:"bal"`
	Vesting map[string]map[string]int64 `json:"vesting,omitempty"` // delayed vesting (never ends inside a scenario)
	Ent     EntGen                      `json:"ent"`
	Wrk     RegGen                      `json:"wrk"`
	Bcn     RegGen                      `json:"bcn"`
	Str     StrGen                      `json:"str"`
	// T0: model time 0 as unix seconds (default 1700000000); WaitUntil: replica C does not start this behaviour before
	// that wall-clock second (C01: replicas on both sides of a stored deadline)
	T0        int64 `json:"t0unix,omitempty"`
	WaitUntil int64 `json:"waitUntil,omitempty"`
	// BigBal: additional balances given as decimal strings (amounts beyond int64; harness `arith`)
	BigBal map[string]map[string]string `json:"bigbal,omitempty"`
	// DB backend for this replica ("mem" default, "goleveldb")
	DB string `json:"db,omitempty"`
	// SkipInv: construct apps with crisis genesis-invariant assertion skipped
	SkipInv bool `json:"skipInv,omitempty"`
	// ManyDenoms: that many further foreign denominations d000, d001, ... (all sorting before the native one) in the bank
	// supply: listings longer than the bank's default page of 100 entries
	ManyDenoms int `json:"manyDenoms,omitempty"`
	// InvPeriod: node-local --inv-check-period (crisis asserts every registered invariant every n-th block; 0 = never)
	InvPeriod uint `json:"invPeriod,omitempty"`
}
type EntGen struct {
	Signers []string `json:"signers"`
	Min     uint64   `json:"min"`
	Limit   uint64   `json:"limit"`
	Denom   string   `json:"denom"`
	WL      []string `json:"wl"`
	StartID uint64   `json:"startId,omitempty"`
}
type RegGen struct {
	FeeReg  uint64 `json:"feeReg"`
	FeeRec  uint64 `json:"feeRec"`
	FeePur  uint64 `json:"feePur"`
	Denom   string `json:"denom"`
	Def     uint64 `json:"def"`
	Max     uint64 `json:"max"`
	StartID uint64 `json:"startId,omitempty"`
}
type StrGen struct {
	FeeNum int64 `json:"feeNum"` // validator fee = feeNum/feeDen
	FeeDen int64 `json:"feeDen"`
}

// decOf builds the decimal feeNum/feeDen (feeDen = 0 stands for a nil Dec).
func decOf(num, den int64) sdk.Dec {
	if den == 0 {
		return sdk.Dec{}
	}
	return sdk.NewDec(num).QuoInt64(den)
}

func DefaultGenSpec() GenSpec {
	return GenSpec{
		Accts: []string{"A1", "A2", "A3", "A4", "A5"},
		Bal: map[string]map[string]int64{
			"A1": {"nund": 1000, "other": 1000}, "A2": {"nund": 1000, "other": 1000},
			"A3": {"nund": 1000, "other": 1000}, "A4": {"nund": 1000, "other": 1000},
			"A5": {"nund": 0, "other": 0},
		},
		Ent: EntGen{Signers: []string{"A1", "A2"}, Min: 1, Limit: 4, Denom: "nund", WL: []string{"A3", "A4"}, StartID: 1},
		Wrk: RegGen{FeeReg: 24, FeeRec: 2, FeePur: 3, Denom: "nund", Def: 2, Max: 4, StartID: 1},
		Bcn: RegGen{FeeReg: 20, FeeRec: 1, FeePur: 5, Denom: "nund", Def: 2, Max: 4, StartID: 1},
		Str: StrGen{FeeNum: 1, FeeDen: 100},
	}
}

type World struct {
	AbsTime      *time.Time
	App          *app.App
	DB           dbm.DB
	dbDir        string
	Gen          GenSpec
	Accts        map[string]*Acct // by model name, includes "V" the validator's delegator
	ByAddr       map[string]string
	Names        []string // model account names in scenario order (without V)
	ValSet       *tmtypes.ValidatorSet
	Height       int64 // height of the block in progress or last committed
	TimeMs       int64 // model time of the current block in ms since T0
	InBlock      bool
	Halted       bool
	CommitTimeMs int64
	opts         simtestutil.AppOptionsMap
	// pending gov proposals submitted by the harness (ids), informational
	NextProposal uint64
	// module addresses
	EntAddr, StreamAddr, FeeAddr, DistrAddr, GovAddr sdk.AccAddress
	// the group policy account "grp" (x/group, created in the first block; 32-byte derived address, no key)
	GrpAddr sdk.AccAddress
	// events of the last ABCI call (for mint/burn observation)
	lastEvents []abci.Event
}

// IBCDen: a voucher denomination as ibc-transfer mints them
const IBCDen = "ibc/27394FB092D2ECCD56123C74F36E4C1F926001CEADA9CA97EA622B25F41E5EB2"

var valSeed = sha256.Sum256([]byte("verif-validator"))

var configSet = false

func setConfigOnce() {
	if !configSet {
		app.SetConfig()
		configSet = true
	}
}

func keyFor(name string) cryptotypes.PrivKey {
	h := sha256.Sum256([]byte("verif-key-" + name))
	return &secp256k1.PrivKey{Key: h[:]}
}

func (w *World) addAcct(name string) *Acct {
	p := keyFor(name)
	a := &Acct{Name: name, Priv: p, Addr: sdk.AccAddress(p.PubKey().Address())}
	w.Accts[name] = a
	w.ByAddr[a.Addr.String()] = name
	return a
}

func (w *World) newApp(db dbm.DB) *app.App {
	return app.NewApp(log.NewNopLogger(), db, nil, true, w.opts, baseapp.SetChainID(ChainID))
}

func openDB(kind string, dir string) (dbm.DB, error) {
	switch kind {
	case "", "mem":
		return dbm.NewMemDB(), nil
	case "goleveldb":
		return dbm.NewGoLevelDB("application", dir)
	}
	return nil, fmt.Errorf("unknown db kind %q", kind)
}

func coinsOf(m map[string]int64) sdk.Coins {
	cs := sdk.Coins{}
	for d, v := range m {
		if v > 0 {
			cs = cs.Add(sdk.NewInt64Coin(d, v))
		}
	}
	return cs
}

// NewWorld builds a fresh chain from an abstract genesis: InitChain + Commit + one empty block
// (until a first block exists the SDK signature check forces account number 0).
func NewWorld(g GenSpec) (*World, error) {
	setConfigOnce()
	T0Unix = 1700000000
	if g.T0 != 0 {
		T0Unix = g.T0
	}
	w := &World{Gen: g, Accts: map[string]*Acct{}, ByAddr: map[string]string{}}
	w.opts = simtestutil.AppOptionsMap{}
	w.opts[flags.FlagHome] = app.DefaultNodeHome
	w.opts[server.FlagInvCheckPeriod] = g.InvPeriod
	if g.SkipInv {
		w.opts["x-crisis-skip-assert-invariants"] = true
	}
	if g.DB == "goleveldb" {
		d, err := os.MkdirTemp("", "vharness-db-")
		if err != nil {
			return nil, err
		}
		w.dbDir = d
	}
	db, err := openDB(g.DB, w.dbDir)
	if err != nil {
		return nil, err
	}
	w.DB = db
	w.App = w.newApp(db)

	w.EntAddr = authtypes.NewModuleAddress(enttypes.ModuleName)
	w.StreamAddr = authtypes.NewModuleAddress(streamtypes.ModuleName)
	w.FeeAddr = authtypes.NewModuleAddress(authtypes.FeeCollectorName)
	w.DistrAddr = authtypes.NewModuleAddress(distrtypes.ModuleName)
	w.GovAddr = authtypes.NewModuleAddress(govtypes.ModuleName)
	w.ByAddr[w.EntAddr.String()] = "ent"
	w.ByAddr[w.StreamAddr.String()] = "stream"
	w.ByAddr[w.FeeAddr.String()] = "feecol"
	w.ByAddr[w.DistrAddr.String()] = "distr"
	w.ByAddr[w.GovAddr.String()] = "gov"

	genState, err := w.buildGenesis()
	if err != nil {
		return nil, err
	}
	stateBytes, err := json.Marshal(genState)
	if err != nil {
		return nil, err
	}
	var perr interface{}
	func() {
		defer func() { perr = recover() }()
		w.App.InitChain(abci.RequestInitChain{
			ChainId:         ChainID,
			Time:            time.Unix(T0Unix, 0).UTC(),
			Validators:      []abci.ValidatorUpdate{},
			ConsensusParams: simtestutil.DefaultConsensusParams,
			AppStateBytes:   stateBytes,
		})
	}()
	if perr != nil {
		return nil, fmt.Errorf("InitChain panic: %v", perr)
	}
	w.App.Commit()
	w.Height = 0
	w.TimeMs = 0
	// one block without transactions; the group of A1 and A2 and its policy account "grp" are created in it
	w.BeginBlock(0)
	if err := w.createGroup(); err != nil {
		return nil, err
	}
	w.EndBlock()
	w.Commit()
	return w, nil
}

func (w *World) buildGenesis() (app.GenesisState, error) {
	g := w.Gen
	a := w.App
	gs := a.DefaultGenesis()
	cdc := a.AppCodec()

	// staking / gov / crisis in the staking denomination
	sp := stakingtypes.DefaultParams()
	sp.BondDenom = StakeDen
	gs[stakingtypes.ModuleName] = cdc.MustMarshalJSON(stakingtypes.NewGenesisState(sp, nil, nil))
	gg := govv1.DefaultGenesisState()
	gg.Params.MinDeposit = sdk.Coins{sdk.NewInt64Coin(StakeDen, 10)}
	vp := time.Duration(VotingSec) * time.Second
	gg.Params.VotingPeriod = &vp
	gs[govtypes.ModuleName] = cdc.MustMarshalJSON(gg)
	gs[crisistypes.ModuleName] = cdc.MustMarshalJSON(crisistypes.NewGenesisState(sdk.NewInt64Coin(StakeDen, 1000)))

	// validator
	// deterministic validator key: replicas must start from byte-identical genesis documents
	pv := mock.PV{PrivKey: &sdked25519.PrivKey{Key: stded25519.NewKeyFromSeed(valSeed[:])}}
	pk, err := pv.GetPubKey()
	if err != nil {
		return nil, err
	}
	val := tmtypes.NewValidator(pk, 1)
	w.ValSet = tmtypes.NewValidatorSet([]*tmtypes.Validator{val})

	// accounts: V first (the delegator of the genesis validator)
	v := w.addAcct("V")
	var genAccs []authtypes.GenesisAccount
	var bals []banktypes.Balance
	genAccs = append(genAccs, authtypes.NewBaseAccount(v.Addr, v.Priv.PubKey(), 0, 0))
	// two foreign denominations that sort before / after the native one ("aaa" < "nund" < "other" < "stake" < "zzz"):
	// supply listings are paged across them (C17)
	vcoins := sdk.NewCoins(sdk.NewInt64Coin(StakeDen, 1000000000),
		sdk.NewInt64Coin("aaa", 7), sdk.NewInt64Coin("zzz", 9),
		// ... and an IBC voucher denomination (upper-case hexadecimal hash: denominations are case-sensitive)
		sdk.NewInt64Coin(IBCDen, 5))
	for i := 0; i < g.ManyDenoms; i++ {
		vcoins = vcoins.Add(sdk.NewInt64Coin(fmt.Sprintf("d%03d", i), int64(1+i)))
	}
	bals = append(bals, banktypes.Balance{Address: v.Addr.String(), Coins: vcoins})
	w.Names = append([]string{}, g.Accts...)
	for _, n := range g.Accts {
		ac := w.addAcct(n)
		base := authtypes.NewBaseAccount(ac.Addr, nil, 0, 0)
		coins := coinsOf(g.Bal[n])
		if vs, ok := g.Vesting[n]; ok {
			orig := coinsOf(vs)
			// delayed vesting far in the future: everything in orig is unvested for the whole scenario
			dva := vestingtypes.NewDelayedVestingAccount(base, orig, T0Unix+100*365*86400)
			genAccs = append(genAccs, dva)
			coins = coins.Add(orig...)
		} else {
			genAccs = append(genAccs, base)
		}
		for d, v := range g.BigBal[n] {
			amt, ok := sdk.NewIntFromString(v)
			if !ok {
				return nil, fmt.Errorf("bad big balance %q", v)
			}
			coins = coins.Add(sdk.NewCoin(d, amt))
		}
		// every scenario account also holds some stake for gov deposits
		coins = coins.Add(sdk.NewInt64Coin(StakeDen, 1000000))
		bals = append(bals, banktypes.Balance{Address: ac.Addr.String(), Coins: coins})
	}
	gs2, err := simtestutil.GenesisStateWithValSet(cdc, gs, w.ValSet, genAccs, bals...)
	if err != nil {
		return nil, err
	}
	gs = gs2

	// enterprise
	signers := ""
	for i, s := range g.Ent.Signers {
		if i > 0 {
			signers += ","
		}
		signers += w.addrOrRaw(s)
	}
	var wl enttypes.Whitelists
	for _, n := range g.Ent.WL {
		wl = append(wl, w.Accts[n].Addr.String())
	}
	startPo := g.Ent.StartID
	if startPo == 0 {
		startPo = 1
	}
	eg := enttypes.NewGenesisState(
		enttypes.NewParams(g.Ent.Denom, g.Ent.Min, g.Ent.Limit, signers),
		startPo, sdk.NewInt64Coin(g.Ent.Denom, 0), nil, nil, wl, sdk.NewInt64Coin(g.Ent.Denom, 0), nil)
	gs[enttypes.ModuleName] = cdc.MustMarshalJSON(eg)

	ws := g.Wrk.StartID
	if ws == 0 {
		ws = 1
	}
	gs[wrkchaintypes.ModuleName] = cdc.MustMarshalJSON(wrkchaintypes.NewGenesisState(
		wrkchaintypes.NewParams(g.Wrk.FeeReg, g.Wrk.FeeRec, g.Wrk.FeePur, g.Wrk.Denom, g.Wrk.Def, g.Wrk.Max), ws, nil))
	bs := g.Bcn.StartID
	if bs == 0 {
		bs = 1
	}
	gs[beacontypes.ModuleName] = cdc.MustMarshalJSON(beacontypes.NewGenesisState(
		beacontypes.NewParams(g.Bcn.FeeReg, g.Bcn.FeeRec, g.Bcn.FeePur, g.Bcn.Denom, g.Bcn.Def, g.Bcn.Max), bs, nil))

	vf := decOf(g.Str.FeeNum, g.Str.FeeDen)
	sg := streamtypes.DefaultGenesis()
	sg.Params = streamtypes.NewParams(vf)
	gs[streamtypes.ModuleName] = cdc.MustMarshalJSON(sg)
	return gs, nil
}

// createGroup: one group (members A1 and A2, weight 1 each) with one policy account (threshold 1, no minimum
// execution period), through the real x/group message server on the block's deliver state.
func (w *World) createGroup() (err error) {
	defer func() {
		if r := recover(); r != nil {
			err = fmt.Errorf("createGroup panic: %v", r)
		}
	}()
	a1 := sdk.AccAddress(keyFor("A1").PubKey().Address())
	a2 := sdk.AccAddress(keyFor("A2").PubKey().Address())
	msg := &group.MsgCreateGroupWithPolicy{
		Admin:              a1.String(),
		Members:            []group.MemberRequest{{Address: a1.String(), Weight: "1"}, {Address: a2.String(), Weight: "1"}},
		GroupPolicyAsAdmin: false,
	}
	if err := msg.SetDecisionPolicy(group.NewThresholdDecisionPolicy("1", 24*time.Hour, 0)); err != nil {
		return err
	}
	ctx := w.App.NewContext(false, w.header())
	res, err := w.App.GroupKeeper.CreateGroupWithPolicy(sdk.WrapSDKContext(ctx), msg)
	if err != nil {
		return fmt.Errorf("createGroup: %w", err)
	}
	w.GrpAddr, err = sdk.AccAddressFromBech32(res.GroupPolicyAddress)
	if err != nil {
		return err
	}
	w.ByAddr[w.GrpAddr.String()] = "grp"
	return nil
}

// addrOrRaw maps a model account name to its bech32 address; unknown tokens are passed through
// verbatim (used to build malformed parameter values).
func (w *World) addrOrRaw(n string) string {
	if a, ok := w.Accts[n]; ok {
		return a.Addr.String()
	}
	// " A1" / "A1 " / "\tA1": a well-formed address with surrounding white space (a malformed entry)
	if t := strings.TrimSpace(n); t != n && t != "" {
		if a, ok := w.Accts[t]; ok {
			return strings.Replace(n, t, a.Addr.String(), 1)
		}
	}
	switch n {
	case "ent":
		return w.EntAddr.String()
	case "stream":
		return w.StreamAddr.String()
	case "feecol":
		return w.FeeAddr.String()
	case "gov":
		return w.GovAddr.String()
	case "grp":
		return w.GrpAddr.String()
	case "distr":
		return w.DistrAddr.String()
	}
	return n
}

func (w *World) nameOf(addr string) string {
	if n, ok := w.ByAddr[addr]; ok {
		return n
	}
	// the all upper-case spelling of a bech32 address names the same account
	if n, ok := w.ByAddr[strings.ToLower(addr)]; ok && strings.ToUpper(addr) == addr {
		return n
	}
	return "?" + addr
}

func (w *World) header() tmproto.Header {
	t := time.Unix(T0Unix, 0).UTC().Add(time.Duration(w.TimeMs) * time.Millisecond)
	if w.AbsTime != nil {
		t = *w.AbsTime // harness `arith`: nanosecond block times far beyond the range of time.Duration
	}
	return tmproto.Header{
		ChainID:            ChainID,
		Height:             w.Height,
		Time:               t,
		AppHash:            w.App.LastCommitID().Hash,
		ValidatorsHash:     w.ValSet.Hash(),
		NextValidatorsHash: w.ValSet.Hash(),
		ProposerAddress:    w.ValSet.Validators[0].Address,
	}
}

// Ctx returns a context on the state a query between/inside blocks should see.
func (w *World) Ctx() sdk.Context {
	if w.InBlock {
		return w.App.NewContext(false, w.header())
	}
	// between blocks: the last COMMITTED state (not the CheckTx state, which admitted CheckTx calls advance)
	ms := w.App.CommitMultiStore().CacheMultiStore()
	return sdk.NewContext(ms, w.header(), false, log.NewNopLogger())
}

type CallRes struct {
	Panic string
}

// BeginBlock starts the next block dtMs model-milliseconds after the previous one.
func (w *World) BeginBlock(dtMs int64) (panicMsg string) {
	w.Height = w.App.LastBlockHeight() + 1
	w.TimeMs += dtMs
	defer func() {
		if r := recover(); r != nil {
			panicMsg = fmt.Sprint(r)
			w.Halted = true
		}
	}()
	res := w.App.BeginBlock(abci.RequestBeginBlock{Header: w.header()})
	w.InBlock = true
	w.lastEvents = res.Events
	return ""
}

func (w *World) EndBlock() (panicMsg string) {
	defer func() {
		if r := recover(); r != nil {
			panicMsg = fmt.Sprint(r)
			w.Halted = true
		}
	}()
	res := w.App.EndBlock(abci.RequestEndBlock{Height: w.Height})
	w.lastEvents = res.Events
	return ""
}

func (w *World) Commit() (panicMsg string) {
	defer func() {
		if r := recover(); r != nil {
			panicMsg = fmt.Sprint(r)
			w.Halted = true
		}
	}()
	w.App.Commit()
	w.InBlock = false
	w.lastEvents = nil
	w.CommitTimeMs = w.TimeMs
	return ""
}

// Restart drops the app object and re-opens it from the same DB (crash + restart).
func (w *World) Restart() error {
	if w.Gen.DB == "goleveldb" {
		// a real process crash would release the lock; emulate by closing the handle
		if err := w.DB.Close(); err != nil {
			return err
		}
		db, err := openDB(w.Gen.DB, w.dbDir)
		if err != nil {
			return err
		}
		w.DB = db
	}
	w.App = w.newApp(w.DB)
	w.InBlock = false
	w.Halted = false
	w.Height = w.App.LastBlockHeight()
	w.TimeMs = w.CommitTimeMs // the interrupted block is re-proposed with the same header time
	return nil
}

func (w *World) Close() {
	if w.DB != nil {
		w.DB.Close()
	}
	if w.dbDir != "" {
		os.RemoveAll(w.dbDir)
	}
}

func sortedKeys[T any](m map[string]T) []string {
	ks := make([]string, 0, len(m))
	for k := range m {
		ks = append(ks, k)
	}
	sort.Strings(ks)
	return ks
}
