package main

import (
	"bufio"
	"bytes"
	"encoding/json"
	"flag"
	"fmt"
	"os"
)

func usage() {
	fmt.Fprintln(os.Stderr, `vharness <cmd> [flags]
  run     -in behaviours.json -out rec.ndjson     execute TLC/driver generated behaviours and record them
  random  -profile P -seed S -steps N -runs K -out rec.ndjson   seeded random driver (records + schedules)
  ...`)
	os.Exit(2)
}

func readJSON(path string, v interface{}) error {
	f, err := os.Open(path)
	if err != nil {
		return err
	}
	defer f.Close()
	d := json.NewDecoder(bufio.NewReaderSize(f, 1<<20))
	d.UseNumber()
	return d.Decode(v)
}

func main() {
	if len(os.Args) < 2 {
		usage()
	}
	cmd := os.Args[1]
	fs := flag.NewFlagSet(cmd, flag.ExitOnError)
	in := fs.String("in", "", "input file")
	out := fs.String("out", "", "output file")
	seed := fs.Int64("seed", 1, "seed")
	steps := fs.Int("steps", 100, "steps per run")
	runs := fs.Int("runs", 1, "number of runs")
	profile := fs.String("profile", "ent", "random driver profile")
	fs.Parse(os.Args[2:])

	var err error
	switch cmd {
	case "run":
		err = cmdRun(*in, *out)
	case "random":
		err = cmdRandom(*profile, *seed, *steps, *runs, *out)
	default:
		if f, ok := extraCmds[cmd]; ok {
			err = f(fs, *in, *out, *seed)
		} else {
			usage()
		}
	}
	if err != nil {
		fmt.Fprintln(os.Stderr, "HARNESS-ERROR:", err)
		os.Exit(2)
	}
}

var extraCmds = map[string]func(fs *flag.FlagSet, in, out string, seed int64) error{}

// cmdRun: input = JSON array of behaviours, each an array of steps. A {"a":"TraceReset"} line
// separates recordings in the output.
func cmdRun(in, out string) error {
	var behaviours [][]M
	if err := readJSON(in, &behaviours); err != nil {
		return err
	}
	f, err := os.Create(out)
	if err != nil {
		return err
	}
	defer f.Close()
	bw := bufio.NewWriterSize(f, 1<<20)
	defer bw.Flush()
	r := NewRunner(bw)
	for i, b := range behaviours {
		if err := r.RunBehaviour(b); err != nil {
			return fmt.Errorf("behaviour %d: %w", i, err)
		}
	}
	if r.W != nil {
		r.W.Close()
	}
	return nil
}

func roundTrip(ev M) M {
	bz, err := json.Marshal(ev)
	if err != nil {
		panic(err)
	}
	var out M
	d := json.NewDecoder(bytesReader(bz))
	d.UseNumber()
	if err := d.Decode(&out); err != nil {
		panic(err)
	}
	return out
}

func bytesReader(b []byte) *bytes.Reader { return bytes.NewReader(b) }
