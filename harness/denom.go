package main

// denom: C19. Feeds the conversion vectors TLC emitted from spec/Denom.tla (mc/MC_Denom.tla) to the
// real undtypes.ConvertUndDenomination - the function behind `und convert` - and records what it
// returned, one ndjson line per vector:
//
//	{"a":"Convert","args":{amount,from,to,expect,back,int,frac},
//	 "res":{"ok":bool,"out":"<returned string>","val":"<out without suffix / insignificant zeros>","err":"...",
//	        "back":{"ok","out","val","err"}}}
//
// For fund->nund vectors the real round trip is executed as well: the returned nund amount (suffix
// removed) is fed back through nund->fund and recorded under res.back.
// No expectation is computed here: the harness only strips the denomination suffix and insignificant
// leading zeros so that spec/TraceDenom.tla can judge by string equality.

import (
	"bufio"
	"bytes"
	"context"
	"encoding/json"
	"flag"
	"fmt"
	"os"
	"strings"

	"github.com/cosmos/cosmos-sdk/client"
	undcmd "github.com/unification-com/mainchain/cmd/und/cmd"
	undtypes "github.com/unification-com/mainchain/types"
)

func init() {
	extraCmds["denom"] = cmdDenom
}

type denomVec struct {
	Amount string `json:"amount"`
	From   string `json:"from"`
	To     string `json:"to"`
	Expect string `json:"expect"`
	Back   string `json:"back"`
	Int    []int  `json:"int"`
	Frac   []int  `json:"frac"`
}

type denomRes struct {
	Ok   bool      `json:"ok"`
	Out  string    `json:"out"`
	Val  string    `json:"val"`
	Err  string    `json:"err"`
	Back *denomRes `json:"back,omitempty"`
	// the same vector through the real `und convert` command (cmd/und/cmd GetDenomConversionCmd), in process: with the
	// amount as given, and with the amount in a zero-padded spelling ("0" + amount: the same number)
	Cli    *denomRes `json:"cli,omitempty"`
	CliPad *denomRes `json:"cliPad,omitempty"`
}

type denomLine struct {
	A    string   `json:"a"`
	Args denomVec `json:"args"`
	Res  denomRes `json:"res"`
}

// stripDenom removes the denomination suffix and insignificant leading zeros of the integer part
// ("007nund" -> "7", "00.500000000fund" -> "0.500000000"); nothing else is touched.
func stripDenom(out, denom string) string {
	v := strings.TrimSuffix(out, denom)
	i := 0
	for i+1 < len(v) && v[i] == '0' && v[i+1] >= '0' && v[i+1] <= '9' {
		i++
	}
	return v[i:]
}

func convertOnce(amount, from, to string) (r denomRes) {
	defer func() {
		if p := recover(); p != nil {
			r = denomRes{Ok: false, Err: fmt.Sprintf("panic: %v", p)}
		}
	}()
	out, err := undtypes.ConvertUndDenomination(amount, from, to)
	if err != nil {
		return denomRes{Ok: false, Out: out, Err: err.Error()}
	}
	return denomRes{Ok: true, Out: out, Val: stripDenom(out, to)}
}

// cliOnce runs `und convert <amount> <from> <to>` in process and takes the right-hand side of the printed line.
func cliOnce(amount, from, to string) (r denomRes) {
	defer func() {
		if p := recover(); p != nil {
			r = denomRes{Ok: false, Err: fmt.Sprintf("panic: %v", p)}
		}
	}()
	buf := new(bytes.Buffer)
	clientCtx := client.Context{}.WithOutput(buf)
	ctx := context.WithValue(context.Background(), client.ClientContextKey, &clientCtx)
	c := undcmd.GetDenomConversionCmd()
	c.SetArgs([]string{amount, from, to})
	c.SilenceUsage, c.SilenceErrors = true, true
	c.SetOut(new(bytes.Buffer))
	c.SetErr(new(bytes.Buffer))
	if err := c.ExecuteContext(ctx); err != nil {
		return denomRes{Ok: false, Err: err.Error()}
	}
	line := strings.TrimSpace(buf.String())
	i := strings.LastIndex(line, " = ")
	if i < 0 {
		return denomRes{Ok: false, Out: line, Err: "unexpected output"}
	}
	o := line[i+3:]
	return denomRes{Ok: true, Out: o, Val: stripDenom(o, to)}
}

func cmdDenom(fs *flag.FlagSet, in, out string, seed int64) error {
	var vecs []denomVec
	if err := readJSONPlain(in, &vecs); err != nil {
		return err
	}
	f, err := os.Create(out)
	if err != nil {
		return err
	}
	defer f.Close()
	w := bufio.NewWriterSize(f, 1<<20)
	defer w.Flush()
	enc := json.NewEncoder(w)
	enc.SetEscapeHTML(false)
	for _, v := range vecs {
		if v.Int == nil {
			v.Int = []int{}
		}
		if v.Frac == nil {
			v.Frac = []int{}
		}
		res := convertOnce(v.Amount, v.From, v.To)
		if v.From == undtypes.FundDenom && v.To == undtypes.NundDenom && res.Ok {
			b := convertOnce(res.Val, undtypes.NundDenom, undtypes.FundDenom)
			res.Back = &b
		}
		if res.Back == nil {
			res.Back = &denomRes{}
		}
		c1 := cliOnce(v.Amount, v.From, v.To)
		c2 := cliOnce("0"+v.Amount, v.From, v.To)
		res.Cli, res.CliPad = &c1, &c2
		if err := enc.Encode(denomLine{A: "Convert", Args: v, Res: res}); err != nil {
			return err
		}
	}
	return nil
}
