package main

// denom: C19. Feeds the conversion vectors TLC emitted from spec/Denom.tla (mc/MC_Denom.tla) to the
// real undtypes.ConvertUndDenomination - the function behind `und convert` - and records what it
// returned, one ndjson line per vector:
//
//	{"a":"Convert","args":{amount,from,to,expect,back,int,frac},
//	 "res":{"ok":bool,"out":"<returned string>","val":"<out without suffix / insignificant zeros>","err":"...",
//	        "back":{"ok","out","val","err"}}}
//
// For fund->nund vectors the real round trip is executed as well: the returned nund amount (suffix
// removed) is fed back through nund->fund and recorded under res.back.
// No expectation is computed here: the harness only strips the denomination suffix and insignificant
// leading zeros so that spec/TraceDenom.tla can judge by string equality.

import (
	"bufio"
	"encoding/json"
	"flag"
	"fmt"
	"os"
	"strings"

	undtypes "github.com/unification-com/mainchain/types"
)

func init() {
	extraCmds["denom"] = cmdDenom
}

type denomVec struct {
	Amount string `json:"amount"`
	From   string `json:"from"`
	To     string `json:"to"`
	Expect string `json:"expect"`
	Back   string `json:"back"`
	Int    []int  `json:"int"`
	Frac   []int  `json:"frac"`
}

type denomRes struct {
	Ok   bool      `json:"ok"`
	Out  string    `json:"out"`
	Val  string    `json:"val"`
	Err  string    `json:"err"`
	Back *denomRes `json:"back,omitempty"`
}

type denomLine struct {
	A    string   `json:"a"`
	Args denomVec `json:"args"`
	Res  denomRes `json:"res"`
}

// stripDenom removes the denomination suffix and insignificant leading zeros of the integer part
// ("007nund" -> "7", "00.500000000fund" -> "0.500000000"); nothing else is touched.
func stripDenom(out, denom string) string {
	v := strings.TrimSuffix(out, denom)
	i := 0
	for i+1 < len(v) && v[i] == '0' && v[i+1] >= '0' && v[i+1] <= '9' {
		i++
	}
	return v[i:]
}

func convertOnce(amount, from, to string) (r denomRes) {
	defer func() {
		if p := recover(); p != nil {
			r = denomRes{Ok: false, Err: fmt.Sprintf("panic: %v", p)}
		}
	}()
	out, err := undtypes.ConvertUndDenomination(amount, from, to)
	if err != nil {
		return denomRes{Ok: false, Out: out, Err: err.Error()}
	}
	return denomRes{Ok: true, Out: out, Val: stripDenom(out, to)}
}

func cmdDenom(fs *flag.FlagSet, in, out string, seed int64) error {
	var vecs []denomVec
	if err := readJSONPlain(in, &vecs); err != nil {
		return err
	}
	f, err := os.Create(out)
	if err != nil {
		return err
	}
	defer f.Close()
	w := bufio.NewWriterSize(f, 1<<20)
	defer w.Flush()
	enc := json.NewEncoder(w)
	enc.SetEscapeHTML(false)
	for _, v := range vecs {
		if v.Int == nil {
			v.Int = []int{}
		}
		if v.Frac == nil {
			v.Frac = []int{}
		}
		res := convertOnce(v.Amount, v.From, v.To)
		if v.From == undtypes.FundDenom && v.To == undtypes.NundDenom && res.Ok {
			b := convertOnce(res.Val, undtypes.NundDenom, undtypes.FundDenom)
			res.Back = &b
		}
		if res.Back == nil {
			res.Back = &denomRes{}
		}
		if err := enc.Encode(denomLine{A: "Convert", Args: v, Res: res}); err != nil {
			return err
		}
	}
	return nil
}
