package main

// Building real sdk.Msg values and really signed transactions from model-level JSON.

import (
	"encoding/json"
	"fmt"
	"math/big"
	"math/rand"
	"strings"

	"github.com/cosmos/cosmos-sdk/client"
	cryptotypes "github.com/cosmos/cosmos-sdk/crypto/types"
	sdk "github.com/cosmos/cosmos-sdk/types"
	"github.com/cosmos/cosmos-sdk/types/tx/signing"
	authsigning "github.com/cosmos/cosmos-sdk/x/auth/signing"
	"github.com/cosmos/cosmos-sdk/x/authz"
	banktypes "github.com/cosmos/cosmos-sdk/x/bank/types"
	"github.com/cosmos/cosmos-sdk/x/feegrant"
	govv1 "github.com/cosmos/cosmos-sdk/x/gov/types/v1"
	"github.com/cosmos/cosmos-sdk/x/group"
	stakingtypes "github.com/cosmos/cosmos-sdk/x/staking/types"

	beacontypes "github.com/unification-com/mainchain/x/beacon/types"
	enttypes "github.com/unification-com/mainchain/x/enterprise/types"
	streamtypes "github.com/unification-com/mainchain/x/stream/types"
	wrkchaintypes "github.com/unification-com/mainchain/x/wrkchain/types"
)

type M = map[string]interface{}

func mStr(m M, k string) string {
	if v, ok := m[k]; ok && v != nil {
		switch x := v.(type) {
		case string:
			return x
		case json.Number:
			return x.String()
		case float64:
			return fmt.Sprintf("%d", int64(x))
		}
		return fmt.Sprint(v)
	}
	return ""
}

// mBig reads an integer given as JSON number or decimal string.
func mBig(m M, k string) *big.Int {
	s := mStr(m, k)
	if s == "" {
		return big.NewInt(0)
	}
	b, ok := new(big.Int).SetString(s, 10)
	if !ok {
		panic(fmt.Sprintf("harness: bad integer %q for %s", s, k))
	}
	return b
}

// mU64 reads a uint64 in schedule form: values >= CAP are codes of the saturating abstraction
// (proj.go absBig) and stand for boundary numbers around 2^63 / 2^64.
func mU64(m M, k string) uint64 {
	b := mBig(m, k)
	if b.IsInt64() && b.Int64() >= CAP {
		return concBig(b.Int64()).Uint64()
	}
	return b.Uint64()
}
func mI64(m M, k string) int64 { return mBig(m, k).Int64() }
func mBool(m M, k string) bool {
	if v, ok := m[k]; ok {
		if b, ok := v.(bool); ok {
			return b
		}
	}
	return false
}
func mList(m M, k string) []M {
	var out []M
	if v, ok := m[k]; ok && v != nil {
		for _, e := range v.([]interface{}) {
			out = append(out, e.(map[string]interface{}))
		}
	}
	return out
}
func mStrList(m M, k string) []string {
	var out []string
	if v, ok := m[k]; ok && v != nil {
		for _, e := range v.([]interface{}) {
			out = append(out, fmt.Sprint(e))
		}
	}
	return out
}
func mMap(m M, k string) M {
	if v, ok := m[k]; ok && v != nil {
		if mm, ok := v.(map[string]interface{}); ok {
			return mm
		}
		// TLC prints an empty function as an empty tuple: [] stands for {}
		return nil
	}
	return nil
}

// expandStr instantiates size classes: "LEN:n" -> a string of n characters; "LEN:n:c" uses char c.
func expandStr(s string) string {
	if strings.HasPrefix(s, "LEN:") {
		parts := strings.Split(s, ":")
		n := 0
		fmt.Sscan(parts[1], &n)
		c := "x"
		if len(parts) > 2 {
			c = parts[2]
		}
		return strings.Repeat(c, n)
	}
	return s
}

func (w *World) coin(m M, amtKey, denomKey string) sdk.Coin {
	d := mStr(m, denomKey)
	if d == "" {
		d = "nund"
	}
	return sdk.Coin{Denom: d, Amount: sdk.NewIntFromBigInt(mBig(m, amtKey))}
}

// BuildMsg turns one model-level message into the real message.
func (w *World) BuildMsg(m M) (sdk.Msg, error) {
	// "enc": "upper" - every address of the message in the all-upper-case spelling bech32 also allows (same account)
	A := func(k string) string {
		a := w.addrOrRaw(mStr(m, k))
		if mStr(m, "enc") == "upper" {
			return strings.ToUpper(a)
		}
		return a
	}
	switch mStr(m, "t") {
	case "Raise":
		return &enttypes.MsgUndPurchaseOrder{Purchaser: A("pur"), Amount: w.coin(m, "amt", "denom")}, nil
	case "Decide":
		d := enttypes.StatusNil
		switch mStr(m, "d") {
		case "accept":
			d = enttypes.StatusAccepted
		case "reject":
			d = enttypes.StatusRejected
		case "raised":
			d = enttypes.StatusRaised
		case "completed":
			d = enttypes.StatusCompleted
		}
		return &enttypes.MsgProcessUndPurchaseOrder{PurchaseOrderId: mU64(m, "id"), Decision: d, Signer: A("signer")}, nil
	case "Whitelist":
		act := enttypes.WhitelistActionNil
		switch mStr(m, "act") {
		case "add":
			act = enttypes.WhitelistActionAdd
		case "remove":
			act = enttypes.WhitelistActionRemove
		}
		return &enttypes.MsgWhitelistAddress{Address: A("addr"), Signer: A("signer"), Action: act}, nil
	case "WReg":
		return &wrkchaintypes.MsgRegisterWrkChain{Moniker: expandStr(mStr(m, "moniker")), Name: expandStr(mStr(m, "name")),
			GenesisHash: expandStr(mStr(m, "genesis")), BaseType: expandStr(mStr(m, "type")), Owner: A("owner")}, nil
	case "WRec":
		return &wrkchaintypes.MsgRecordWrkChainBlock{WrkchainId: mU64(m, "id"), Height: mU64(m, "h"),
			BlockHash: expandStr(mStr(m, "bh")), ParentHash: expandStr(mStr(m, "ph")), Hash1: expandStr(mStr(m, "h1")),
			Hash2: expandStr(mStr(m, "h2")), Hash3: expandStr(mStr(m, "h3")), Owner: A("owner")}, nil
	case "WBuy":
		return &wrkchaintypes.MsgPurchaseWrkChainStateStorage{WrkchainId: mU64(m, "id"), Number: mU64(m, "n"), Owner: A("owner")}, nil
	case "BReg":
		return &beacontypes.MsgRegisterBeacon{Moniker: expandStr(mStr(m, "moniker")), Name: expandStr(mStr(m, "name")), Owner: A("owner")}, nil
	case "BRec":
		return &beacontypes.MsgRecordBeaconTimestamp{BeaconId: mU64(m, "id"), Hash: expandStr(mStr(m, "hash")),
			SubmitTime: mU64(m, "subt"), Owner: A("owner")}, nil
	case "BBuy":
		return &beacontypes.MsgPurchaseBeaconStateStorage{BeaconId: mU64(m, "id"), Number: mU64(m, "n"), Owner: A("owner")}, nil
	case "SCreate":
		return &streamtypes.MsgCreateStream{Receiver: A("receiver"), Sender: A("sender"), Deposit: w.coin(m, "dep", "denom"), FlowRate: mI64(m, "rate")}, nil
	case "SClaim":
		return &streamtypes.MsgClaimStream{Receiver: A("receiver"), Sender: A("sender")}, nil
	case "STopUp":
		return &streamtypes.MsgTopUpDeposit{Receiver: A("receiver"), Sender: A("sender"), Deposit: w.coin(m, "dep", "denom")}, nil
	case "SRate":
		return &streamtypes.MsgUpdateFlowRate{Receiver: A("receiver"), Sender: A("sender"), FlowRate: mI64(m, "rate")}, nil
	case "SCancel":
		return &streamtypes.MsgCancelStream{Receiver: A("receiver"), Sender: A("sender")}, nil
	case "Send":
		return &banktypes.MsgSend{FromAddress: A("from"), ToAddress: A("to"), Amount: sdk.Coins{w.coin(m, "amt", "denom")}}, nil
	case "Delegate":
		val := sdk.ValAddress(w.Accts["V"].Addr).String()
		return &stakingtypes.MsgDelegate{DelegatorAddress: A("del"), ValidatorAddress: val, Amount: w.coin(m, "amt", "denom")}, nil
	case "Exec":
		var inner []sdk.Msg
		for _, im := range mList(m, "msgs") {
			x, err := w.BuildMsg(im)
			if err != nil {
				return nil, err
			}
			inner = append(inner, x)
		}
		g, err := sdk.AccAddressFromBech32(A("grantee"))
		if err != nil {
			return nil, err
		}
		e := authz.NewMsgExec(g, inner)
		return &e, nil
	case "GExec":
		// a group proposal by a member, executed at once when the proposer's vote reaches the threshold
		var inner []sdk.Msg
		for _, im := range mList(m, "msgs") {
			x, err := w.BuildMsg(im)
			if err != nil {
				return nil, err
			}
			inner = append(inner, x)
		}
		return group.NewMsgSubmitProposal(w.GrpAddr.String(), []string{A("member")}, inner, "", group.Exec_EXEC_TRY, "t", "s")
	case "Grant":
		granter, err := sdk.AccAddressFromBech32(A("granter"))
		if err != nil {
			return nil, err
		}
		grantee, err := sdk.AccAddressFromBech32(A("grantee"))
		if err != nil {
			return nil, err
		}
		g, err := authz.NewMsgGrant(granter, grantee, authz.NewGenericAuthorization(msgTypeURL(mStr(m, "mt"))), nil)
		if err != nil {
			return nil, err
		}
		return g, nil
	case "Revoke":
		return &authz.MsgRevoke{Granter: A("granter"), Grantee: A("grantee"), MsgTypeUrl: msgTypeURL(mStr(m, "mt"))}, nil
	case "FGrant":
		granter, err := sdk.AccAddressFromBech32(A("granter"))
		if err != nil {
			return nil, err
		}
		grantee, err := sdk.AccAddressFromBech32(A("grantee"))
		if err != nil {
			return nil, err
		}
		g, err := feegrant.NewMsgGrantAllowance(&feegrant.BasicAllowance{}, granter, grantee)
		if err != nil {
			return nil, err
		}
		return g, nil
	case "FRevoke":
		return &feegrant.MsgRevokeAllowance{Granter: A("granter"), Grantee: A("grantee")}, nil
	case "UpdParams":
		return w.buildUpdParams(m)
	case "GovProp":
		var inner []sdk.Msg
		for _, im := range mList(m, "msgs") {
			x, err := w.BuildMsg(im)
			if err != nil {
				return nil, err
			}
			inner = append(inner, x)
		}
		p, err := sdk.AccAddressFromBech32(A("proposer"))
		if err != nil {
			return nil, err
		}
		return govv1.NewMsgSubmitProposal(inner, sdk.NewCoins(sdk.NewInt64Coin(StakeDen, 10)), p.String(), "", "t", "s")
	case "Vote":
		v, err := sdk.AccAddressFromBech32(A("voter"))
		if err != nil {
			return nil, err
		}
		return govv1.NewMsgVote(v, mU64(m, "id"), govv1.OptionYes, ""), nil
	}
	return nil, fmt.Errorf("harness: unknown message type %q", mStr(m, "t"))
}

// signer list in parameter structures: model names -> bech32, anything else verbatim.
func (w *World) signersString(xs []string) string {
	out := make([]string, len(xs))
	for i, s := range xs {
		out[i] = w.addrOrRaw(s)
	}
	return strings.Join(out, ",")
}

func (w *World) buildUpdParams(m M) (sdk.Msg, error) {
	auth := w.addrOrRaw(mStr(m, "authority"))
	p := mMap(m, "p")
	switch mStr(m, "mod") {
	case "ent":
		return &enttypes.MsgUpdateParams{Authority: auth, Params: enttypes.Params{
			EntSigners: w.signersString(mStrList(p, "signers")), Denom: mStr(p, "denom"),
			MinAccepts: mU64(p, "min"), DecisionTimeLimit: mU64(p, "limit")}}, nil
	case "wrk":
		return &wrkchaintypes.MsgUpdateParams{Authority: auth, Params: wrkchaintypes.Params{
			FeeRegister: mU64(p, "feeReg"), FeeRecord: mU64(p, "feeRec"), FeePurchaseStorage: mU64(p, "feePur"),
			Denom: mStr(p, "denom"), DefaultStorageLimit: mU64(p, "def"), MaxStorageLimit: mU64(p, "max")}}, nil
	case "bcn":
		return &beacontypes.MsgUpdateParams{Authority: auth, Params: beacontypes.Params{
			FeeRegister: mU64(p, "feeReg"), FeeRecord: mU64(p, "feeRec"), FeePurchaseStorage: mU64(p, "feePur"),
			Denom: mStr(p, "denom"), DefaultStorageLimit: mU64(p, "def"), MaxStorageLimit: mU64(p, "max")}}, nil
	case "str":
		vf := decOf(mI64(p, "feeNum"), mI64(p, "feeDen"))
		return &streamtypes.MsgUpdateParams{Authority: auth, Params: streamtypes.Params{ValidatorFee: vf}}, nil
	}
	return nil, fmt.Errorf("harness: unknown params module %q", mStr(m, "mod"))
}

// TxSpec is the model-level transaction.
type TxSpec struct {
	Msgs    []M
	Signers []string // model names whose keys sign; default: derived from the messages
	Granter string
	Payer   string
	Fee     map[string]*big.Int
	BadSig  bool // sign with a wrong chain id
	BadSeq  bool // sign with sequence+1
	Gas     uint64
}

func parseTxSpec(m M) TxSpec {
	t := TxSpec{Msgs: mList(m, "msgs"), Signers: mStrList(m, "signers"), Granter: mStr(m, "granter"),
		Payer: mStr(m, "payer"), BadSig: mBool(m, "badSig"), BadSeq: mBool(m, "badSeq"), Gas: mU64(m, "gas")}
	t.Fee = map[string]*big.Int{}
	if f := mMap(m, "fee"); f != nil {
		for d := range f {
			t.Fee[d] = mBig(f, d)
		}
	}
	if t.Gas == 0 {
		t.Gas = 2000000
	}
	return t
}

// BuildTx signs the transaction with the real keys of the named signers (SIGN_MODE_DIRECT).
func (w *World) BuildTx(ctx sdk.Context, t TxSpec) ([]byte, sdk.Tx, error) {
	var msgs []sdk.Msg
	for _, m := range t.Msgs {
		x, err := w.BuildMsg(m)
		if err != nil {
			return nil, nil, err
		}
		msgs = append(msgs, x)
	}
	txc := w.App.TxConfig()
	b := txc.NewTxBuilder()
	if err := b.SetMsgs(msgs...); err != nil {
		return nil, nil, err
	}
	fee := sdk.Coins{}
	for _, d := range sortedKeys(t.Fee) {
		// keep zero coins out (sdk.Coins invariant), they are "absent"
		if t.Fee[d].Sign() > 0 {
			fee = append(fee, sdk.Coin{Denom: d, Amount: sdk.NewIntFromBigInt(t.Fee[d])})
		}
	}
	b.SetFeeAmount(fee.Sort())
	b.SetGasLimit(t.Gas)
	if t.Granter != "" {
		g, err := sdk.AccAddressFromBech32(w.addrOrRaw(t.Granter))
		if err != nil {
			return nil, nil, err
		}
		b.SetFeeGranter(g)
	}
	if t.Payer != "" {
		p, err := sdk.AccAddressFromBech32(w.addrOrRaw(t.Payer))
		if err != nil {
			return nil, nil, err
		}
		b.SetFeePayer(p)
	}
	signers := t.Signers
	if len(signers) == 0 {
		seen := map[string]bool{}
		for _, a := range b.GetTx().GetSigners() {
			n := w.nameOf(a.String())
			if !seen[n] {
				seen[n] = true
				signers = append(signers, n)
			}
		}
	}
	var privs []cryptotypes.PrivKey
	var accNums, seqs []uint64
	for _, n := range signers {
		ac, ok := w.Accts[n]
		if !ok {
			return nil, nil, fmt.Errorf("harness: no key for signer %q", n)
		}
		privs = append(privs, ac.Priv)
		an, sq := uint64(0), uint64(0)
		if acc := w.App.AccountKeeper.GetAccount(ctx, ac.Addr); acc != nil {
			an, sq = acc.GetAccountNumber(), acc.GetSequence()
		}
		if t.BadSeq {
			sq++
		}
		accNums = append(accNums, an)
		seqs = append(seqs, sq)
	}
	chain := ChainID
	if t.BadSig {
		chain = "wrong-chain"
	}
	signMode := txc.SignModeHandler().DefaultMode()
	// round 1: empty signatures to set signer infos
	var sigs []signing.SignatureV2
	for i, p := range privs {
		sigs = append(sigs, signing.SignatureV2{PubKey: p.PubKey(),
			Data: &signing.SingleSignatureData{SignMode: signMode}, Sequence: seqs[i]})
	}
	if err := b.SetSignatures(sigs...); err != nil {
		return nil, nil, err
	}
	for i, p := range privs {
		sd := authsigning.SignerData{Address: sdk.AccAddress(p.PubKey().Address()).String(), ChainID: chain,
			AccountNumber: accNums[i], Sequence: seqs[i], PubKey: p.PubKey()}
		bz, err := txc.SignModeHandler().GetSignBytes(signMode, sd, b.GetTx())
		if err != nil {
			return nil, nil, err
		}
		sig, err := p.Sign(bz)
		if err != nil {
			return nil, nil, err
		}
		sigs[i].Data.(*signing.SingleSignatureData).Signature = sig
	}
	if err := b.SetSignatures(sigs...); err != nil {
		return nil, nil, err
	}
	bz, err := txc.TxEncoder()(b.GetTx())
	if err != nil {
		return nil, nil, err
	}
	return bz, b.GetTx(), nil
}

var _ = rand.Int
var _ client.TxConfig

// msgTypeURL maps a model message type to the protobuf type URL authz grants are keyed by.
var msgTypeURLs = map[string]string{
	"Raise": sdk.MsgTypeURL(&enttypes.MsgUndPurchaseOrder{}), "Decide": sdk.MsgTypeURL(&enttypes.MsgProcessUndPurchaseOrder{}),
	"Whitelist": sdk.MsgTypeURL(&enttypes.MsgWhitelistAddress{}),
	"WReg":      sdk.MsgTypeURL(&wrkchaintypes.MsgRegisterWrkChain{}), "WRec": sdk.MsgTypeURL(&wrkchaintypes.MsgRecordWrkChainBlock{}),
	"WBuy": sdk.MsgTypeURL(&wrkchaintypes.MsgPurchaseWrkChainStateStorage{}),
	"BReg": sdk.MsgTypeURL(&beacontypes.MsgRegisterBeacon{}), "BRec": sdk.MsgTypeURL(&beacontypes.MsgRecordBeaconTimestamp{}),
	"BBuy":    sdk.MsgTypeURL(&beacontypes.MsgPurchaseBeaconStateStorage{}),
	"SCreate": sdk.MsgTypeURL(&streamtypes.MsgCreateStream{}), "SClaim": sdk.MsgTypeURL(&streamtypes.MsgClaimStream{}),
	"STopUp": sdk.MsgTypeURL(&streamtypes.MsgTopUpDeposit{}), "SRate": sdk.MsgTypeURL(&streamtypes.MsgUpdateFlowRate{}),
	"SCancel": sdk.MsgTypeURL(&streamtypes.MsgCancelStream{}), "Send": sdk.MsgTypeURL(&banktypes.MsgSend{}),
}

func msgTypeURL(t string) string {
	if u, ok := msgTypeURLs[t]; ok {
		return u
	}
	return t
}

func msgTypeOfURL(u string) string {
	for t, x := range msgTypeURLs {
		if x == u {
			return t
		}
	}
	return u
}
