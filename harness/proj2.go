package main

// Additional projections: vesting bookkeeping (C05) and the enterprise supply queries (C17).

import (
	"fmt"

	sdk "github.com/cosmos/cosmos-sdk/types"
	"github.com/cosmos/cosmos-sdk/types/query"
	vestexported "github.com/cosmos/cosmos-sdk/x/auth/vesting/exported"

	enttypes "github.com/unification-com/mainchain/x/enterprise/types"
)

func (w *World) projVest(ctx sdk.Context) J {
	out := J{}
	for _, n := range w.Names {
		acc := w.App.AccountKeeper.GetAccount(ctx, w.Accts[n].Addr)
		va, ok := acc.(vestexported.VestingAccount)
		if !ok {
			continue
		}
		o, dv, df := J{}, J{}, J{}
		for _, d := range Denoms {
			o[d] = absInt(va.GetOriginalVesting().AmountOf(d))
			dv[d] = absInt(va.GetDelegatedVesting().AmountOf(d))
			df[d] = absInt(va.GetDelegatedFree().AmountOf(d))
		}
		out[n] = J{"orig": o, "dv": dv, "df": df}
	}
	return out
}

// projSupplyQueries runs the enterprise supply queries, incl. every page size in key and offset mode.
func (w *World) projSupplyQueries(ctx sdk.Context) J {
	k := w.App.EnterpriseKeeper
	g := sdk.WrapSDKContext(ctx)
	out := J{}
	so := J{}
	for _, d := range append(append([]string{}, Denoms...), StakeDen) {
		r, err := k.SupplyOf(g, &enttypes.QuerySupplyOfRequest{Denom: d})
		if err != nil {
			so[d] = int64(-1)
			continue
		}
		so[d] = absInt(r.Amount.Amount)
		if d == StakeDen {
			out["supplyOfStake"] = r.Amount.Amount.String()
		}
	}
	out["supplyOf"] = so
	bank := J{}
	for _, d := range append(append([]string{}, Denoms...), StakeDen) {
		bank[d] = absInt(w.App.BankKeeper.GetSupply(ctx, d).Amount)
	}
	out["bank"] = bank
	out["bankStake"] = w.App.BankKeeper.GetSupply(ctx, StakeDen).Amount.String()
	// denominations with non-zero bank supply, in store key order
	den := []interface{}{}
	w.App.BankKeeper.IterateTotalSupply(ctx, func(c sdk.Coin) bool {
		if !c.Amount.IsZero() {
			den = append(den, c.Denom)
			bank[c.Denom] = absInt(c.Amount)
		}
		return false
	})
	out["denoms"] = den
	// the per-denomination supply query for EVERY denomination the bank knows (foreign ones must be reported unchanged)
	soAll := J{}
	for _, dd := range den {
		d := dd.(string)
		r, err := k.SupplyOf(g, &enttypes.QuerySupplyOfRequest{Denom: d})
		if err != nil {
			soAll[d] = int64(-1)
			continue
		}
		if r.Amount.Denom != d {
			soAll[d] = int64(-2)
			continue
		}
		soAll[d] = absInt(r.Amount.Amount)
	}
	out["supplyOfAll"] = soAll
	if es, err := k.EnterpriseSupply(g, &enttypes.QueryEnterpriseSupplyRequest{}); err == nil {
		out["entSupply"] = J{"denom": es.Supply.Denom, "total": absU64(es.Supply.Total), "locked": absU64(es.Supply.Locked), "unlocked": absU64(es.Supply.Amount)}
	}
	if tu, err := k.TotalUnlocked(g, &enttypes.QueryTotalUnlockedRequest{}); err == nil {
		out["totalUnlocked"] = J{"denom": tu.Amount.Denom, "amt": absInt(tu.Amount.Amount)}
	}
	n := len(den)
	pages := J{}
	for lim := 1; lim <= n+1; lim++ {
		for _, mode := range []string{"key", "off", "rkey", "roff"} {
			rev := mode[0] == 'r'
			var got []interface{}
			var amts []interface{}
			var next []byte
			off := uint64(0)
			ok := true
			for it := 0; it < n+3; it++ {
				pr := &query.PageRequest{Limit: uint64(lim), Reverse: rev}
				if mode == "key" || mode == "rkey" {
					pr.Key = next
				} else {
					pr.Offset = off
				}
				r, err := k.TotalSupply(g, &enttypes.QueryTotalSupplyRequest{Pagination: pr})
				if err != nil {
					ok = false
					break
				}
				// a page is an sdk.Coins value (ascending inside the page in both directions); reverse listings
				// deliver the PAGES in descending order, so they are prepended
				var pd, pa []interface{}
				for _, c := range r.Supply {
					pd = append(pd, c.Denom)
					pa = append(pa, absInt(c.Amount))
				}
				if rev {
					got = append(pd, got...)
					amts = append(pa, amts...)
				} else {
					got = append(got, pd...)
					amts = append(amts, pa...)
				}
				if mode == "key" || mode == "rkey" {
					next = r.Pagination.NextKey
					if len(next) == 0 {
						break
					}
				} else {
					off += uint64(lim)
					if len(r.Supply) == 0 || off >= uint64(n) {
						break
					}
				}
			}
			if got == nil {
				got = []interface{}{}
				amts = []interface{}{}
			}

			pages[fmt.Sprintf("%s:%d", mode, lim)] = J{"ok": ok, "denoms": got, "amts": amts}
		}
	}
	out["pages"] = pages
	return out
}
