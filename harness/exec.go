package main

// Executing model-level steps on the real application and recording {a, args, res, post}.

import (
	"bufio"
	"encoding/json"
	"fmt"
	"github.com/cosmos/cosmos-sdk/x/group"
	"sort"
	"strings"

	abci "github.com/cometbft/cometbft/abci/types"
	"github.com/cosmos/cosmos-sdk/codec/types"
	sdk "github.com/cosmos/cosmos-sdk/types"
	sdkerrors "github.com/cosmos/cosmos-sdk/types/errors"

	beacontypes "github.com/unification-com/mainchain/x/beacon/types"
	enttypes "github.com/unification-com/mainchain/x/enterprise/types"
	streamtypes "github.com/unification-com/mainchain/x/stream/types"
	wrkchaintypes "github.com/unification-com/mainchain/x/wrkchain/types"
)

type pendingTx struct {
	bz []byte
	ev M
}

type Runner struct {
	pending []pendingTx
	W       *World
	Tr      *Track
	Out     *bufio.Writer
	Lines   int
	NoProj  bool // replicas only need hashes
	// PreCheck: this replica is a node that saw every transaction in its mempool and serves gas estimates: each
	// transaction is offered to Simulate and to CheckTx before it is delivered (C01: neither may influence any result)
	PreCheck bool
	// per-run raw results (for replica comparison)
	Raw []J
	// optional annotation of a step's result before it is recorded (twin mode)
	Annot func(ev M, res J)
	txIdx int
	// the original chain after an ExportImport, stepped in lockstep with the re-imported one (r.W)
	Orig *World
}

func NewRunner(out *bufio.Writer) *Runner {
	return &Runner{Out: out, Tr: &Track{WrkEver: map[uint64][]uint64{}, BcnEver: map[uint64][]uint64{}}}
}

func (r *Runner) emit(rec J) {
	if r.Out == nil {
		return
	}
	bz, err := json.Marshal(rec)
	if err != nil {
		panic(err)
	}
	r.Out.Write(bz)
	r.Out.WriteString("\n")
	r.Lines++
}

func coinEvents(evs []abci.Event) (mints J, burns J) {
	mints, burns = J{}, J{}
	add := func(m J, amt string) {
		cs, err := sdk.ParseCoinsNormalized(amt)
		if err != nil {
			return
		}
		for _, c := range cs {
			prev, _ := m[c.Denom].(int64)
			m[c.Denom] = prev + absInt(c.Amount)
		}
	}
	for _, e := range evs {
		if e.Type == "coinbase" || e.Type == "burn" {
			for _, a := range e.Attributes {
				if a.Key == "amount" {
					if e.Type == "coinbase" {
						add(mints, a.Value)
					} else {
						add(burns, a.Value)
					}
				}
			}
		}
	}
	for _, d := range Denoms {
		if _, ok := mints[d]; !ok {
			mints[d] = int64(0)
		}
		if _, ok := burns[d]; !ok {
			burns[d] = int64(0)
		}
	}
	// only projected denominations are reported
	for k := range mints {
		if !isProjDenom(k) {
			delete(mints, k)
		}
	}
	for k := range burns {
		if !isProjDenom(k) {
			delete(burns, k)
		}
	}
	return
}

func (r *Runner) decodeOuts(data []byte) []interface{} {
	outs := []interface{}{}
	var md sdk.TxMsgData
	if err := md.Unmarshal(data); err != nil {
		return outs
	}
	for _, any := range md.MsgResponses {
		outs = append(outs, r.decodeAny(any))
	}
	return outs
}

func (r *Runner) decodeAny(any *types.Any) J {
	u := any.TypeUrl
	short := u[strings.LastIndex(u, ".")+1:]
	o := J{"t": short}
	switch {
	case strings.HasSuffix(u, "group.v1.MsgSubmitProposalResponse"):
		// a proposal that ran successfully is pruned at once; one whose messages failed is kept with that result
		var x group.MsgSubmitProposalResponse
		if x.Unmarshal(any.Value) == nil {
			pr, err := r.W.App.GroupKeeper.Proposal(sdk.WrapSDKContext(r.W.Ctx()), &group.QueryProposalRequest{ProposalId: x.ProposalId})
			o["executed"] = err != nil || pr == nil || pr.Proposal == nil || pr.Proposal.ExecutorResult == group.PROPOSAL_EXECUTOR_RESULT_SUCCESS
		}
	case strings.HasSuffix(u, "enterprise.v1.MsgUndPurchaseOrderResponse"):
		var x enttypes.MsgUndPurchaseOrderResponse
		if x.Unmarshal(any.Value) == nil {
			o["id"] = absU64(x.PurchaseOrderId)
		}
	case strings.HasSuffix(u, "wrkchain.v1.MsgRegisterWrkChainResponse"):
		var x wrkchaintypes.MsgRegisterWrkChainResponse
		if x.Unmarshal(any.Value) == nil {
			o["id"] = absU64(x.WrkchainId)
		}
	case strings.HasSuffix(u, "wrkchain.v1.MsgRecordWrkChainBlockResponse"):
		var x wrkchaintypes.MsgRecordWrkChainBlockResponse
		if x.Unmarshal(any.Value) == nil {
			o["id"] = absU64(x.WrkchainId)
			o["h"] = absU64(x.Height)
		}
	case strings.HasSuffix(u, "wrkchain.v1.MsgPurchaseWrkChainStateStorageResponse"):
		var x wrkchaintypes.MsgPurchaseWrkChainStateStorageResponse
		if x.Unmarshal(any.Value) == nil {
			o["id"] = absU64(x.WrkchainId)
			o["n"] = absU64(x.NumberPurchased)
			o["can"] = absU64(x.NumCanPurchase)
		}
	case strings.HasSuffix(u, "beacon.v1.MsgRegisterBeaconResponse"):
		var x beacontypes.MsgRegisterBeaconResponse
		if x.Unmarshal(any.Value) == nil {
			o["id"] = absU64(x.BeaconId)
		}
	case strings.HasSuffix(u, "beacon.v1.MsgRecordBeaconTimestampResponse"):
		var x beacontypes.MsgRecordBeaconTimestampResponse
		if x.Unmarshal(any.Value) == nil {
			o["id"] = absU64(x.BeaconId)
			o["h"] = absU64(x.TimestampId)
		}
	case strings.HasSuffix(u, "beacon.v1.MsgPurchaseBeaconStateStorageResponse"):
		var x beacontypes.MsgPurchaseBeaconStateStorageResponse
		if x.Unmarshal(any.Value) == nil {
			o["id"] = absU64(x.BeaconId)
			o["n"] = absU64(x.NumberPurchased)
			o["can"] = absU64(x.NumCanPurchase)
		}
	case strings.HasSuffix(u, "stream.v1.MsgClaimStreamResponse"):
		var x streamtypes.MsgClaimStreamResponse
		if x.Unmarshal(any.Value) == nil {
			o["total"] = absInt(x.TotalClaimed.Amount)
			o["pay"] = absInt(x.StreamPayment.Amount)
			o["fee"] = absInt(x.ValidatorFee.Amount)
			o["rem"] = absInt(x.RemainingDeposit.Amount)
		}
	case strings.HasSuffix(u, "stream.v1.MsgTopUpDepositResponse"):
		var x streamtypes.MsgTopUpDepositResponse
		if x.Unmarshal(any.Value) == nil {
			o["cur"] = absInt(x.CurrentDeposit.Amount)
			o["dzt"] = msOf(x.DepositZeroTime)
		}
	case strings.HasSuffix(u, "authz.v1beta1.MsgExecResponse"):
		// nested responses are raw bytes in 0.47; not decoded
	}
	return o
}

// track remembers accepted records so that later projections re-query them.
func (r *Runner) track(msgs []M, outs []interface{}) {
	// flatten Exec wrappers in order; Exec responses carry nested results only as bytes, so derive from msgs
	// (the messages of a group proposal are taken only when the proposal reports that they ran)
	var walk func(ms []M, top bool)
	walk = func(ms []M, top bool) {
		for i, m := range ms {
			switch mStr(m, "t") {
			case "WRec":
				// only a record that is really in state counts (a nested message may have been refused or rolled back)
				id, h := mU64(m, "id"), mU64(m, "h")
				if r.W.App.WrkchainKeeper.IsWrkChainBlockRecorded(r.W.Ctx(), id, h) {
					r.Tr.WrkEver[id] = appendUniq(r.Tr.WrkEver[id], h)
					sort.Slice(r.Tr.WrkEver[id], func(a, b int) bool { return r.Tr.WrkEver[id][a] < r.Tr.WrkEver[id][b] })
				}
			case "BRec":
				// beacon timestamp ids are assigned by the chain: after a successful record re-query up to last
				id := mU64(m, "id")
				if b, ok := r.W.App.BeaconKeeper.GetBeacon(r.W.Ctx(), id); ok {
					for t := uint64(1); t <= b.LastTimestampId && t < 10000; t++ {
						r.Tr.BcnEver[id] = appendUniq(r.Tr.BcnEver[id], t)
					}
				}
			case "Exec":
				walk(mList(m, "msgs"), false)
			case "GExec":
				ran := true
				if top && i < len(outs) {
					if o, ok := outs[i].(J); ok {
						if e, ok := o["executed"].(bool); ok {
							ran = e
						}
					}
				}
				if ran {
					walk(mList(m, "msgs"), false)
				}
			}
		}
	}
	walk(msgs, true)
}

func appendUniq(xs []uint64, v uint64) []uint64 {
	for _, x := range xs {
		if x == v {
			return xs
		}
	}
	return append(xs, v)
}

func txResJ(code uint32, codespace string, data []byte, log string, gasW, gasU int64, r *Runner) J {
	res := J{"ok": code == 0, "panic": code == sdkerrors.ErrPanic.ABCICode() && codespace == sdkerrors.ErrPanic.Codespace(),
		"code": int64(code), "cs": codespace}
	if code == 0 {
		res["outs"] = r.decodeOuts(data)
	} else {
		res["outs"] = []interface{}{}
		if len(log) > 300 {
			log = log[:300]
		}
		res["log"] = log
	}
	return res
}

// execOn executes one event on world w and returns its result record.
func (r *Runner) execOn(w *World, ev M, primary bool) (J, error) {
	a := mStr(ev, "a")
	res := J{}
	switch a {
	case "BeginBlock":
		dt := mI64(ev, "dt")
		p := w.BeginBlock(dt)
		if primary {
			r.txIdx = 0
		}
		res["panic"] = p != ""
		res["ok"] = p == ""
		if p != "" {
			res["log"] = trunc(p)
		}
		m, b := coinEvents(w.lastEvents)
		res["mints"], res["burns"] = m, b
	case "EndBlock":
		p := w.EndBlock()
		res["panic"] = p != ""
		res["ok"] = p == ""
		if p != "" {
			res["log"] = trunc(p)
		}
		m, b := coinEvents(w.lastEvents)
		res["mints"], res["burns"] = m, b
	case "Commit":
		p := w.Commit()
		res["panic"] = p != ""
		res["ok"] = p == ""
		res["hash"] = fmt.Sprintf("%X", w.App.LastCommitID().Hash)
	case "DeliverTx", "CheckTx":
		t := parseTxSpec(ev)
		var bz []byte
		var berr error
		func() {
			defer func() {
				if x := recover(); x != nil {
					berr = fmt.Errorf("build panic: %v", x)
				}
			}()
			bz, _, berr = w.BuildTx(w.Ctx(), t)
		}()
		if berr != nil {
			return nil, fmt.Errorf("BuildTx: %w", berr)
		}
		if a == "DeliverTx" {
			if primary && r.PreCheck {
				func() {
					defer func() { recover() }()
					w.App.Simulate(bz)
				}()
				func() {
					defer func() { recover() }()
					w.App.CheckTx(abci.RequestCheckTx{Tx: bz, Type: abci.CheckTxType_New})
				}()
			}
			rr := w.App.DeliverTx(abci.RequestDeliverTx{Tx: bz})
			res = txResJ(rr.Code, rr.Codespace, rr.Data, rr.Log, rr.GasWanted, rr.GasUsed, r)
			res["gasW"], res["gasU"] = rr.GasWanted, rr.GasUsed
			res["rawData"] = fmt.Sprintf("%X", rr.Data)
			m, b := coinEvents(rr.Events)
			res["mints"], res["burns"] = m, b
			if primary {
				r.txIdx++
				if rr.Code == 0 {
					outs, _ := res["outs"].([]interface{})
					r.track(t.Msgs, outs)
				}
			}
		} else {
			rr := w.App.CheckTx(abci.RequestCheckTx{Tx: bz, Type: abci.CheckTxType_New})
			res = txResJ(rr.Code, rr.Codespace, rr.Data, rr.Log, rr.GasWanted, rr.GasUsed, r)
			if primary && rr.Code == 0 && mBool(ev, "keep") {
				// stays in the (simulated) mempool: re-offered by a later Recheck event
				r.pending = append(r.pending, pendingTx{bz: bz, ev: ev})
			}
		}
	case "Recheck":
		// what CometBFT does with every pending transaction after a block: CheckTx in recheck mode
		results := []interface{}{}
		txs := []interface{}{}
		for _, p := range r.pending {
			rr := w.App.CheckTx(abci.RequestCheckTx{Tx: p.bz, Type: abci.CheckTxType_Recheck})
			results = append(results, J{"ok": rr.Code == 0, "code": rr.Code, "cs": rr.Codespace})
			txs = append(txs, p.ev)
		}
		res["ok"] = true
		res["results"] = results
		res["txs"] = txs
	case "Crash":
		// the process dies here: nothing is executed; Restart re-opens the database
		res["ok"] = true
	case "Restart":
		if err := w.Restart(); err != nil {
			return nil, err
		}
		if primary {
			r.txIdx = 0
		}
		res["ok"] = true
		res["height"] = w.App.LastBlockHeight()
		res["hash"] = fmt.Sprintf("%X", w.App.LastCommitID().Hash)
	default:
		return nil, fmt.Errorf("harness: unknown action %q", a)
	}
	return res, nil
}

// Step executes one schedule entry and records it. Application panics are observations, not errors.
func (r *Runner) Step(ev M) error {
	a := mStr(ev, "a")
	expandAll(ev)
	rec := J{"a": a, "args": ev}
	var res J
	switch a {
	case "InitChain":
		res = J{}
		g := DefaultGenSpec()
		if gm, ok := ev["g"]; ok && gm != nil {
			bz, _ := json.Marshal(gm)
			g = GenSpec{}
			if err := json.Unmarshal(bz, &g); err != nil {
				return err
			}
		}
		if r.W != nil {
			r.W.Close()
		}
		if r.Orig != nil {
			r.Orig.Close()
			r.Orig = nil
		}
		r.Tr = &Track{WrkEver: map[uint64][]uint64{}, BcnEver: map[uint64][]uint64{}}
		r.pending = nil
		w, err := NewWorld(g)
		if err != nil {
			return err
		}
		r.W = w
		res["ok"] = true
	case "Bulk":
		// scenario preparation (not judged step by step): n consecutive WRKChain records by the owner, 500 per block;
		// recorded as ONE line "Adopt" whose post-state the trace validator adopts as the new starting point
		n, id, owner := int(mI64(ev, "n")), mU64(ev, "id"), mStr(ev, "owner")
		wc, _ := r.W.App.WrkchainKeeper.GetWrkChain(r.W.Ctx(), id)
		fee := int64(r.W.App.WrkchainKeeper.GetParams(r.W.Ctx()).FeeRecord)
		h, accepted := wc.Lastblock, 0
		for done := 0; done < n; {
			if p := r.W.BeginBlock(1000); p != "" {
				return fmt.Errorf("Bulk: BeginBlock panicked: %s", p)
			}
			for i := 0; i < 500 && done < n; i++ {
				h++
				tx := normalize(M{"a": "DeliverTx", "fee": M{"nund": fee}, "msgs": []interface{}{
					M{"t": "WRec", "owner": owner, "id": int64(id), "h": int64(h), "bh": "b", "ph": "", "h1": "", "h2": "", "h3": ""}}})
				rr, err := r.execOn(r.W, tx, true)
				if err != nil {
					return err
				}
				if rr["ok"] == true {
					accepted++
				}
				done++
			}
			if p := r.W.EndBlock(); p != "" {
				return fmt.Errorf("Bulk: EndBlock panicked: %s", p)
			}
			if p := r.W.Commit(); p != "" {
				return fmt.Errorf("Bulk: Commit panicked: %s", p)
			}
		}
		res = J{"ok": true, "accepted": accepted}
		a = "Adopt"
		rec["a"] = "Adopt"
	case "ListQueries":
		// read-only: every list query with every filter / limit / continuation mode (C20)
		res = J{"ok": true, "lists": r.W.ListQueries(mBool(ev, "full"))}
	case "ExportImport":
		var nw *World
		res, nw = r.W.ExportImportMutated(mStr(ev, "mutate"))
		if nw != nil {
			// from now on: r.W = the re-imported chain, r.Orig = the original, stepped in lockstep
			if r.Orig != nil {
				r.Orig.Close()
			}
			r.Orig = r.W
			r.W = nw
		}
	default:
		var err error
		res, err = r.execOn(r.W, ev, true)
		if err != nil {
			return err
		}
		if r.Orig != nil {
			ro, err := r.execOn(r.Orig, ev, false)
			if err != nil {
				return err
			}
			rec["resOrig"] = J{"ok": ro["ok"] == true}
		}
	}
	if r.Annot != nil {
		r.Annot(ev, res)
	}
	rec["res"] = res
	if a == "CheckTx" && mBool(ev, "reset") && res["ok"] == true {
		// an admitted CheckTx advanced the check state (sequence): commit an empty block to reset it
		defer func() {
			for _, e := range []M{{"a": "BeginBlock", "dt": jsonNum(1000)}, {"a": "EndBlock"}, {"a": "Commit"}} {
				r.Step(e)
			}
		}()
	}
	if !r.NoProj {
		rec["post"] = r.W.Project(r.Tr)
		if r.Orig != nil {
			rec["postOrig"] = r.Orig.Project(r.Tr)
		}
	}
	r.Raw = append(r.Raw, rec)
	r.emit(rec)
	return nil
}

func jsonNum(n int64) interface{} { return json.Number(fmt.Sprint(n)) }

func trunc(s string) string {
	if len(s) > 300 {
		return s[:300]
	}
	return s
}

// RunBehaviour executes a whole behaviour (list of steps beginning with InitChain).
func (r *Runner) RunBehaviour(steps []M) error {
	for i, s := range steps {
		if err := r.Step(s); err != nil {
			return fmt.Errorf("step %d (%s): %w", i, mStr(s, "a"), err)
		}
		if r.W != nil && r.W.Halted {
			break // a begin/end blocker or commit panicked: the chain is halted, nothing more can run
		}
	}
	return nil
}

// expandAll replaces size-class strings ("LEN:n") by their concrete members in place, so that the
// recording carries exactly what was submitted.
func expandAll(v interface{}) {
	switch x := v.(type) {
	case map[string]interface{}:
		for k, e := range x {
			if s, ok := e.(string); ok {
				x[k] = expandStr(s)
			} else {
				expandAll(e)
			}
		}
	case []interface{}:
		for i, e := range x {
			if s, ok := e.(string); ok {
				x[i] = expandStr(s)
			} else {
				expandAll(e)
			}
		}
	}
}
