package main

// keys: C18 (distinct entities never alias each other's storage).
//
// Input: behaviours of MC_Keys' KVSpec - operation sequences [{op:"Set"|"Del", sec:<group>, k:"K1".."K4", v}]
// over four SYMBOLIC logical keys of one keeper section (group). Every behaviour is executed
// `-runs` times on the REAL keepers of a real app (deliver-state context of a block in progress, one
// cache branch per execution), each time with the symbolic keys instantiated from the boundary tables
// below (seeded). After EVERY operation ALL logical keys of the group are read back through the
// keepers' point reads and through their iteration / list functions (streams: also the gRPC list
// queries). Nothing is judged here: the recording is judged by TLC (spec/TraceKeys.tla) against the
// ideal map of spec/Keys.tla.
//
// Output (ndjson):
//   {"a":"Reset","args":{beh,run,sec,keys:{K1:{...full logical key...}}},"post":{"x":0}}
//   {"a":"KeyOp","args":{op,sec,k,v,inst:{K1:"short description",...}},"res":{...},
//    "post":{"get":{K1:v|-1},"iter":[[K,v],...],"numericOrder":[K,...],"noIter":[K,...],"listed":[...]}}
//   {"a":"KeySample","args":{sec,id:[8 bytes],h:[8 bytes],addr|r|s:[bytes]},"res":{"key":[bytes]},"post":{"x":0}}
// absent = -1, panic = -2, unparsable value = -3; an iterated / listed entity that is none of K1..K4 = "?".

import (
	"bufio"
	"bytes"
	"crypto/sha256"
	"encoding/binary"
	"encoding/hex"
	"encoding/json"
	"flag"
	"fmt"
	"math/rand"
	"os"
	"sort"
	"strconv"

	sdk "github.com/cosmos/cosmos-sdk/types"
	"github.com/cosmos/cosmos-sdk/types/query"

	"github.com/unification-com/mainchain/app"
	beacontypes "github.com/unification-com/mainchain/x/beacon/types"
	enttypes "github.com/unification-com/mainchain/x/enterprise/types"
	streamtypes "github.com/unification-com/mainchain/x/stream/types"
	wrkchaintypes "github.com/unification-com/mainchain/x/wrkchain/types"
)

func init() { extraCmds["keys"] = cmdKeys }

const (
	kkAbsent = int64(-1)
	kkPanic  = int64(-2)
	kkBadVal = int64(-3)
)

// kkKey is one concrete logical key.
type kkKey struct {
	Sec  string // concrete section (po locked wl rq aq spent wreg wrec wlim breg brec blim str)
	ID   uint64
	H    uint64
	Addr []byte
	R, S []byte
}

var kkSecOrder = []string{"po", "locked", "wl", "rq", "aq", "spent", "wreg", "wrec", "wlim", "breg", "brec", "blim", "str"}

func kkSecIdx(s string) int {
	for i, x := range kkSecOrder {
		if x == s {
			return i
		}
	}
	panic("harness keys: unknown section " + s)
}

func kkKind(sec string) string {
	switch sec {
	case "po", "rq", "aq", "wreg", "wlim", "breg", "blim":
		return "id"
	case "wrec", "brec":
		return "idh"
	case "locked", "wl", "spent":
		return "addr"
	case "str":
		return "rs"
	}
	panic("harness keys: unknown section " + sec)
}
func kkNumeric(sec string) bool { k := kkKind(sec); return k == "id" || k == "idh" }
func kkHasIter(sec string) bool { return sec != "wlim" && sec != "blim" }

func (k kkKey) canon() string {
	switch kkKind(k.Sec) {
	case "id":
		return fmt.Sprintf("%s:%d", k.Sec, k.ID)
	case "idh":
		return fmt.Sprintf("%s:%d/%d", k.Sec, k.ID, k.H)
	case "addr":
		return k.Sec + ":" + hex.EncodeToString(k.Addr)
	default:
		return k.Sec + ":" + hex.EncodeToString(k.R) + "/" + hex.EncodeToString(k.S)
	}
}

func kkShortBytes(b []byte) string {
	if len(b) <= 6 {
		return fmt.Sprintf("%d:%s", len(b), hex.EncodeToString(b))
	}
	h := sha256.Sum256(b)
	return fmt.Sprintf("%d:%s..%s#%s", len(b), hex.EncodeToString(b[:3]), hex.EncodeToString(b[len(b)-2:]), hex.EncodeToString(h[:3]))
}

func (k kkKey) short() string {
	switch kkKind(k.Sec) {
	case "id":
		return fmt.Sprintf("%s id=%d", k.Sec, k.ID)
	case "idh":
		return fmt.Sprintf("%s id=%d h=%d", k.Sec, k.ID, k.H)
	case "addr":
		return k.Sec + " addr=" + kkShortBytes(k.Addr)
	default:
		return k.Sec + " r=" + kkShortBytes(k.R) + " s=" + kkShortBytes(k.S)
	}
}

func (k kkKey) full() J {
	switch kkKind(k.Sec) {
	case "id":
		return J{"sec": k.Sec, "id": strconv.FormatUint(k.ID, 10)}
	case "idh":
		return J{"sec": k.Sec, "id": strconv.FormatUint(k.ID, 10), "h": strconv.FormatUint(k.H, 10)}
	case "addr":
		return J{"sec": k.Sec, "addr": hex.EncodeToString(k.Addr), "len": len(k.Addr)}
	default:
		return J{"sec": k.Sec, "r": hex.EncodeToString(k.R), "s": hex.EncodeToString(k.S), "rlen": len(k.R), "slen": len(k.S)}
	}
}

// kkParseKeys is the inverse of full() for the four symbolic keys of a Reset line.
func kkParseKeys(m map[string]interface{}, names []string) ([]kkKey, error) {
	var ks []kkKey
	for _, n := range names {
		e, ok := m[n].(map[string]interface{})
		if !ok {
			return nil, fmt.Errorf("keys: %s missing", n)
		}
		str := func(f string) string { s, _ := e[f].(string); return s }
		k := kkKey{Sec: str("sec")}
		var err error
		switch kkKind(k.Sec) {
		case "id":
			k.ID, err = strconv.ParseUint(str("id"), 10, 64)
		case "idh":
			if k.ID, err = strconv.ParseUint(str("id"), 10, 64); err == nil {
				k.H, err = strconv.ParseUint(str("h"), 10, 64)
			}
		case "addr":
			k.Addr, err = hex.DecodeString(str("addr"))
		default:
			if k.R, err = hex.DecodeString(str("r")); err == nil {
				k.S, err = hex.DecodeString(str("s"))
			}
		}
		if err != nil {
			return nil, fmt.Errorf("keys: %s: %w", n, err)
		}
		ks = append(ks, k)
	}
	return ks, nil
}

// ---------------------------------------------------------------------------------------------
// boundary tables

var kkIDTable = []uint64{0, 1, 255, 256, 1<<32 - 1, 1 << 32, 1 << 63, ^uint64(0)}
var kkLenTable = []int{1, 2, 19, 20, 21, 32, 254, 255}

// bytes that are prefixes, length bytes of the table lengths, or extremes
var kkHotBytes = []byte{0x00, 0x01, 0x02, 0x03, 0x06, 0x11, 0x13, 0x14, 0x15, 0x20, 0xfe, 0xff}

type kkGen struct {
	rng     *rand.Rand
	lenTick *int
	lens    map[int]bool // address lengths used so far (coverage)
	modes   map[string]int
}

func (g *kkGen) nextLen() int {
	l := kkLenTable[*g.lenTick%len(kkLenTable)]
	*g.lenTick++
	return l
}

func (g *kkGen) bytesN(n int) []byte {
	b := make([]byte, n)
	for i := range b {
		if g.rng.Intn(3) == 0 {
			b[i] = kkHotBytes[g.rng.Intn(len(kkHotBytes))]
		} else {
			b[i] = byte(g.rng.Intn(256))
		}
	}
	return b
}

func kkRev(x uint64) uint64 {
	var b [8]byte
	binary.BigEndian.PutUint64(b[:], x)
	return binary.LittleEndian.Uint64(b[:])
}

func kkDistinctU64(xs []uint64) bool {
	m := map[uint64]bool{}
	for _, x := range xs {
		if m[x] {
			return false
		}
		m[x] = true
	}
	return true
}

// ids4: four distinct ids / heights.
func (g *kkGen) ids4() []uint64 {
	for {
		var out []uint64
		mode := g.rng.Intn(5)
		switch mode {
		case 0: // any four table values in any order
			p := g.rng.Perm(len(kkIDTable))
			for _, i := range p[:4] {
				out = append(out, kkIDTable[i])
			}
		case 1: // two adjacent table values (0/1, 1/255, 255/256, ..., 2^63/2^64-1) plus two others
			j := g.rng.Intn(len(kkIDTable) - 1)
			out = []uint64{kkIDTable[j], kkIDTable[j+1], kkIDTable[g.rng.Intn(len(kkIDTable))], kkIDTable[g.rng.Intn(len(kkIDTable))]}
			g.rng.Shuffle(4, func(a, b int) { out[a], out[b] = out[b], out[a] })
		case 2: // a table value and values derived from it: other half, byte reversal, neighbours, truncations
			t := kkIDTable[g.rng.Intn(len(kkIDTable))]
			cands := []uint64{t ^ (1 << 32), kkRev(t), t + 1, t - 1, t & 0xffffffff, t << 32, t >> 8, t << 8, t ^ (1 << 63), t ^ 0xff}
			g.rng.Shuffle(len(cands), func(a, b int) { cands[a], cands[b] = cands[b], cands[a] })
			out = append([]uint64{t}, cands[:3]...)
		case 3: // anywhere in the domain: two random values, one table value, one relative of a random value
			x, y := g.rng.Uint64(), g.rng.Uint64()
			rel := []uint64{x & 0xffffffff, x >> 32, kkRev(x), x ^ 1, x ^ (1 << 63), x<<8 | x>>56}
			out = []uint64{x, y, kkIDTable[g.rng.Intn(len(kkIDTable))], rel[g.rng.Intn(len(rel))]}
		case 4: // small neighbours around a byte boundary
			base := []uint64{255, 256, 65535, 65536, 1<<32 - 1, 1 << 32, 1<<56 - 1, 1 << 56}[g.rng.Intn(8)]
			out = []uint64{base - 1, base, base + 1, base + 256}
			g.rng.Shuffle(4, func(a, b int) { out[a], out[b] = out[b], out[a] })
		}
		if kkDistinctU64(out) {
			g.modes[fmt.Sprintf("id%d", mode)]++
			return out
		}
	}
}

var kkRecFamilies = [][][2]uint64{
	{{1, 256}, {257, 0}, {1, 0x0203}, {0x0102, 3}}, // minimal-length encodings would collide
	{{1, 11}, {11, 1}, {0, 1}, {1, 0}},             // decimal concatenation, swapped
	{{255, 256}, {256, 255}, {1 << 32, 0}, {0, 1 << 32}},
	{{^uint64(0), 0}, {0, ^uint64(0)}, {^uint64(0), ^uint64(0)}, {0, 0}},
	{{1<<32 - 1, 1 << 32}, {1 << 32, 1<<32 - 1}, {1 << 63, 1}, {1, 1 << 63}},
	{{1, 2 << 56}, {258, 0}, {0, 1<<56 | 2}, {1 << 8, 2}}, // shifted boundary between id and height
	{{1 << 32, 1}, {0, 1}, {1, 1 << 32}, {1, 0}},          // 4-byte truncation of either component
	{{0, 255}, {0, 256}, {0, 1<<32 - 1}, {0, 1 << 32}},
	{{^uint64(0), 1 << 63}, {^uint64(0), ^uint64(0)}, {1 << 63, ^uint64(0)}, {1 << 63, 1 << 63}},
}

// recs4: four distinct (id, height) pairs of section sec.
func (g *kkGen) recs4(sec string) []kkKey {
	for {
		var ps [][2]uint64
		mode := g.rng.Intn(5)
		switch mode {
		case 0: // one registration, four heights
			id := kkIDTable[g.rng.Intn(len(kkIDTable))]
			for _, h := range g.ids4() {
				ps = append(ps, [2]uint64{id, h})
			}
		case 1: // two registrations x two heights
			a, b := g.ids4(), g.ids4()
			ps = [][2]uint64{{a[0], b[0]}, {a[0], b[1]}, {a[1], b[0]}, {a[1], b[1]}}
		case 2: // crafted families
			f := kkRecFamilies[g.rng.Intn(len(kkRecFamilies))]
			ps = append(ps, f...)
			g.rng.Shuffle(4, func(a, b int) { ps[a], ps[b] = ps[b], ps[a] })
		case 3: // table x table
			for i := 0; i < 4; i++ {
				ps = append(ps, [2]uint64{kkIDTable[g.rng.Intn(len(kkIDTable))], kkIDTable[g.rng.Intn(len(kkIDTable))]})
			}
		case 4: // (a,b) (b,a) and anywhere in the domain
			x, y := g.rng.Uint64(), g.rng.Uint64()
			ps = [][2]uint64{{x, y}, {y, x}, {x, x}, {x >> 32, y << 32}}
		}
		seen := map[[2]uint64]bool{}
		ok := true
		for _, p := range ps {
			if seen[p] {
				ok = false
			}
			seen[p] = true
		}
		if ok {
			g.modes[fmt.Sprintf("rec%d", mode)]++
			var out []kkKey
			for _, p := range ps {
				out = append(out, kkKey{Sec: sec, ID: p[0], H: p[1]})
			}
			return out
		}
	}
}

func kkDistinctBytes(xs [][]byte) bool {
	m := map[string]bool{}
	for _, x := range xs {
		if len(x) < 1 || len(x) > 255 || m[string(x)] {
			return false
		}
		m[string(x)] = true
	}
	return true
}

// addrs4: four distinct addresses (lengths from the table; prefix chains; near-equal addresses).
func (g *kkGen) addrs4() [][]byte {
	for {
		var out [][]byte
		mode := g.rng.Intn(5)
		switch mode {
		case 0: // prefix chain: every address is a prefix of the longer ones
			base := g.bytesN(255)
			ls := map[int]bool{}
			for len(ls) < 4 {
				ls[g.nextLen()] = true
			}
			for l := range ls {
				out = append(out, append([]byte{}, base[:l]...))
			}
			sort.Slice(out, func(a, b int) bool { return len(out[a]) < len(out[b]) })
			g.rng.Shuffle(4, func(a, b int) { out[a], out[b] = out[b], out[a] })
		case 1: // independent addresses
			for i := 0; i < 4; i++ {
				out = append(out, g.bytesN(g.nextLen()))
			}
		case 2: // same length, one byte apart (first / last / middle), plus one a byte longer
			l := g.nextLen()
			a := g.bytesN(l)
			b1, b2 := append([]byte{}, a...), append([]byte{}, a...)
			b1[0] ^= 0x01
			b2[l-1] ^= 0x80
			var c []byte
			if l < 255 {
				c = append(append([]byte{}, a...), 0x00)
			} else {
				c = append([]byte{}, a[:254]...)
			}
			out = [][]byte{a, b1, b2, c}
		case 3: // one- and two-byte addresses made of prefix / length bytes
			p := g.rng.Perm(len(kkHotBytes))
			out = [][]byte{{kkHotBytes[p[0]]}, {kkHotBytes[p[1]]}, {kkHotBytes[p[0]], kkHotBytes[p[1]]}, {kkHotBytes[p[1]], kkHotBytes[p[0]]}}
		case 4: // neighbours of the standard 20 bytes: 19, 20, 21 as a prefix chain, and 32
			base := g.bytesN(32)
			out = [][]byte{append([]byte{}, base[:19]...), append([]byte{}, base[:20]...), append([]byte{}, base[:21]...), base}
			g.rng.Shuffle(4, func(a, b int) { out[a], out[b] = out[b], out[a] })
		}
		if kkDistinctBytes(out) {
			g.modes[fmt.Sprintf("addr%d", mode)]++
			return out
		}
	}
}

// streams4: four distinct (receiver, sender) pairs.
func (g *kkGen) streams4() []kkKey {
	cat := func(xs ...[]byte) []byte {
		var o []byte
		for _, x := range xs {
			o = append(o, x...)
		}
		return o
	}
	for {
		var ps [][2][]byte
		mode := g.rng.Intn(6)
		switch mode {
		case 0: // the SAME concatenation receiver||sender, split at four different points
			T := []int{3, 5, 22, 40, 41, 52, 256, 274, 286, 509}[g.rng.Intn(10)]
			x := g.bytesN(T)
			cset := map[int]bool{}
			for _, l := range kkLenTable {
				for _, p := range []int{l, T - l} {
					if p >= 1 && p <= 255 && T-p >= 1 && T-p <= 255 {
						cset[p] = true
					}
				}
			}
			for tries := 0; len(cset) < 4 && tries < 1000; tries++ {
				p := 1 + g.rng.Intn(T-1)
				if p <= 255 && T-p <= 255 {
					cset[p] = true
				}
			}
			var cs []int
			for p := range cset {
				cs = append(cs, p)
			}
			sort.Ints(cs)
			g.rng.Shuffle(len(cs), func(a, b int) { cs[a], cs[b] = cs[b], cs[a] })
			if len(cs) < 4 {
				// fewer than four splits exist (T = 3): fill with swapped pairs
				for _, p := range cs {
					ps = append(ps, [2][]byte{x[:p], x[p:]})
				}
				for _, p := range cs {
					ps = append(ps, [2][]byte{x[p:], x[:p]})
				}
				if len(ps) > 4 {
					ps = ps[:4]
				}
			} else {
				for _, p := range cs[:4] {
					ps = append(ps, [2][]byte{x[:p], x[p:]})
				}
			}
		case 1: // two parties in every role; B extends A by one byte half of the time
			a := g.bytesN(g.nextLen())
			var b []byte
			if g.rng.Intn(2) == 0 && len(a) < 255 {
				b = cat(a, []byte{byte(len(a))})
			} else {
				b = g.bytesN(g.nextLen())
			}
			ps = [][2][]byte{{a, b}, {b, a}, {a, a}, {b, b}}
		case 2: // one receiver, four senders
			r := g.bytesN(g.nextLen())
			for _, s := range g.addrs4() {
				ps = append(ps, [2][]byte{r, s})
			}
		case 3: // one sender, four receivers
			s := g.bytesN(g.nextLen())
			for _, r := range g.addrs4() {
				ps = append(ps, [2][]byte{r, s})
			}
		case 4: // a length byte embedded in an address: r1 | [m+1] | [m] | s2 read with either split
			l1 := []int{1, 2, 19, 20, 21, 32, 254}[g.rng.Intn(7)]
			m := []int{1, 2, 19, 20, 21, 32, 254}[g.rng.Intn(7)]
			r1, s2 := g.bytesN(l1), g.bytesN(m)
			s1 := cat([]byte{byte(m)}, s2)
			r2 := cat(r1, []byte{byte(m + 1)})
			ps = [][2][]byte{{r1, s1}, {r2, s2}, {s1, r1}, {r2, s1}}
		case 5: // independent
			for i := 0; i < 4; i++ {
				ps = append(ps, [2][]byte{g.bytesN(g.nextLen()), g.bytesN(g.nextLen())})
			}
		}
		if len(ps) != 4 {
			continue
		}
		seen := map[string]bool{}
		ok := true
		for _, p := range ps {
			if len(p[0]) < 1 || len(p[0]) > 255 || len(p[1]) < 1 || len(p[1]) > 255 {
				ok = false
			}
			c := hex.EncodeToString(p[0]) + "/" + hex.EncodeToString(p[1])
			if seen[c] {
				ok = false
			}
			seen[c] = true
		}
		if ok {
			g.modes[fmt.Sprintf("str%d", mode)]++
			var out []kkKey
			for _, p := range ps {
				out = append(out, kkKey{Sec: "str", R: append([]byte{}, p[0]...), S: append([]byte{}, p[1]...)})
			}
			return out
		}
	}
}

func kkBE(x uint64) []byte {
	b := make([]byte, 8)
	binary.BigEndian.PutUint64(b, x)
	return b
}

// instantiate: the four logical keys of one execution of a behaviour of `group`.
func (g *kkGen) instantiate(group string) []kkKey {
	ids := func(sec string) []kkKey {
		var out []kkKey
		for _, id := range g.ids4() {
			out = append(out, kkKey{Sec: sec, ID: id})
		}
		return out
	}
	addrs := func(sec string) []kkKey {
		var out []kkKey
		for _, a := range g.addrs4() {
			out = append(out, kkKey{Sec: sec, Addr: a})
		}
		return out
	}
	var ks []kkKey
	switch group {
	case "po", "rq", "aq", "wreg", "wlim", "breg", "blim":
		ks = ids(group)
	case "locked", "wl", "spent":
		ks = addrs(group)
	case "wrec", "brec":
		ks = g.recs4(group)
	case "str":
		ks = g.streams4()
	case "entmix": // valued sections of the enterprise store with equal / related ids and addresses
		id := g.ids4()
		ad := g.addrs4()
		switch g.rng.Intn(3) {
		case 0:
			ks = []kkKey{{Sec: "po", ID: id[0]}, {Sec: "locked", Addr: ad[0]}, {Sec: "spent", Addr: ad[0]}, {Sec: "locked", Addr: ad[1]}}
		case 1:
			ks = []kkKey{{Sec: "po", ID: id[0]}, {Sec: "po", ID: id[1]}, {Sec: "locked", Addr: ad[0]}, {Sec: "spent", Addr: ad[0]}}
		case 2: // the address IS the id's 8 bytes
			ks = []kkKey{{Sec: "po", ID: id[0]}, {Sec: "locked", Addr: kkBE(id[0])}, {Sec: "spent", Addr: kkBE(id[0])}, {Sec: "spent", Addr: kkBE(id[0])[:7]}}
		}
	case "entflag": // presence-only sections of the enterprise store
		id := g.ids4()
		ad := g.addrs4()
		switch g.rng.Intn(3) {
		case 0:
			ks = []kkKey{{Sec: "wl", Addr: ad[0]}, {Sec: "rq", ID: id[0]}, {Sec: "aq", ID: id[0]}, {Sec: "wl", Addr: kkBE(id[0])}}
		case 1:
			ks = []kkKey{{Sec: "rq", ID: id[0]}, {Sec: "rq", ID: id[1]}, {Sec: "aq", ID: id[0]}, {Sec: "aq", ID: id[1]}}
		case 2:
			ks = []kkKey{{Sec: "wl", Addr: ad[0]}, {Sec: "wl", Addr: ad[1]}, {Sec: "rq", ID: id[0]}, {Sec: "aq", ID: id[1]}}
		}
	case "wmix", "bmix":
		p := group[:1]
		id := g.ids4()
		switch g.rng.Intn(3) {
		case 0:
			ks = []kkKey{{Sec: p + "reg", ID: id[0]}, {Sec: p + "lim", ID: id[0]}, {Sec: p + "rec", ID: id[0], H: 0}, {Sec: p + "rec", ID: id[0], H: id[0]}}
		case 1:
			ks = []kkKey{{Sec: p + "reg", ID: id[0]}, {Sec: p + "reg", ID: id[1]}, {Sec: p + "lim", ID: id[0]}, {Sec: p + "lim", ID: id[1]}}
		case 2:
			ks = []kkKey{{Sec: p + "rec", ID: id[0], H: id[1]}, {Sec: p + "rec", ID: id[1], H: id[0]}, {Sec: p + "reg", ID: id[1]}, {Sec: p + "lim", ID: id[1]}}
		}
	default:
		panic("harness keys: unknown group " + group)
	}
	// distinctness of the four LOGICAL keys is what makes a read-back difference an aliasing
	seen := map[string]bool{}
	for _, k := range ks {
		if seen[k.canon()] {
			return g.instantiate(group)
		}
		seen[k.canon()] = true
		for _, b := range [][]byte{k.Addr, k.R, k.S} {
			if len(b) > 0 {
				g.lens[len(b)] = true
			}
		}
	}
	return ks
}

// ---------------------------------------------------------------------------------------------
// the real keepers

type kkExec struct {
	app *app.App
}

func kkSafe(f func()) (p string) {
	defer func() {
		if r := recover(); r != nil {
			p = fmt.Sprint(r)
			if len(p) > 200 {
				p = p[:200]
			}
		}
	}()
	f()
	return ""
}

func kkAtoi(s string) int64 {
	v, err := strconv.ParseInt(s, 10, 64)
	if err != nil {
		return kkBadVal
	}
	return v
}

func kkCoinVal(c sdk.Coin) int64 {
	if c.Amount.IsNil() || !c.Amount.IsInt64() {
		return kkBadVal
	}
	return c.Amount.Int64()
}

func (x *kkExec) set(ctx sdk.Context, k kkKey, v int64) (err error) {
	a := x.app
	owner := sdk.AccAddress([]byte{0xaa, 0xbb}).String()
	switch k.Sec {
	case "po":
		return a.EnterpriseKeeper.SetPurchaseOrder(ctx, enttypes.EnterpriseUndPurchaseOrder{Id: k.ID, Purchaser: owner,
			Amount: sdk.NewInt64Coin("nund", v), Status: enttypes.StatusRaised})
	case "locked":
		return a.EnterpriseKeeper.SetLockedUndForAccount(ctx, enttypes.LockedUnd{Owner: sdk.AccAddress(k.Addr).String(), Amount: sdk.NewInt64Coin("nund", v)})
	case "spent":
		return a.EnterpriseKeeper.SetSpentEFUNDForAccount(ctx, enttypes.SpentEFUND{Owner: sdk.AccAddress(k.Addr).String(), Amount: sdk.NewInt64Coin("nund", v)})
	case "wl":
		return a.EnterpriseKeeper.AddAddressToWhitelist(ctx, sdk.AccAddress(k.Addr))
	case "rq":
		a.EnterpriseKeeper.AddPoToRaisedQueue(ctx, k.ID)
	case "aq":
		a.EnterpriseKeeper.AddPoToAcceptedQueue(ctx, k.ID)
	case "wreg":
		return a.WrkchainKeeper.SetWrkChain(ctx, wrkchaintypes.WrkChain{WrkchainId: k.ID, Moniker: strconv.FormatInt(v, 10), Name: "n", Owner: owner})
	case "wrec":
		return a.WrkchainKeeper.SetWrkChainBlock(ctx, k.ID, wrkchaintypes.WrkChainBlock{Height: k.H, Blockhash: strconv.FormatInt(v, 10)})
	case "wlim":
		return a.WrkchainKeeper.SetWrkChainStorageLimit(ctx, k.ID, uint64(v))
	case "breg":
		return a.BeaconKeeper.SetBeacon(ctx, beacontypes.Beacon{BeaconId: k.ID, Moniker: strconv.FormatInt(v, 10), Name: "n", Owner: owner})
	case "brec":
		return a.BeaconKeeper.SetBeaconTimestamp(ctx, k.ID, beacontypes.BeaconTimestamp{TimestampId: k.H, Hash: strconv.FormatInt(v, 10)})
	case "blim":
		return a.BeaconKeeper.SetBeaconStorageLimit(ctx, k.ID, uint64(v))
	case "str":
		return a.StreamKeeper.SetStream(ctx, sdk.AccAddress(k.R), sdk.AccAddress(k.S), streamtypes.Stream{
			Deposit: sdk.NewInt64Coin("nund", 1000), FlowRate: v, LastOutflowTime: ctx.BlockTime(), DepositZeroTime: ctx.BlockTime(), Cancellable: true})
	default:
		panic("harness keys: set on " + k.Sec)
	}
	return nil
}

func (x *kkExec) del(ctx sdk.Context, k kkKey) error {
	a := x.app
	switch k.Sec {
	case "wl":
		return a.EnterpriseKeeper.RemoveAddressFromWhitelist(ctx, sdk.AccAddress(k.Addr))
	case "rq":
		a.EnterpriseKeeper.RemovePurchaseOrderFromRaisedQueue(ctx, k.ID)
	case "aq":
		a.EnterpriseKeeper.RemovePurchaseOrderFromAcceptedQueue(ctx, k.ID)
	case "str":
		a.StreamKeeper.DeleteStream(ctx, sdk.AccAddress(k.R), sdk.AccAddress(k.S))
	default:
		return fmt.Errorf("harness keys: section %s has no exported delete", k.Sec)
	}
	return nil
}

// get: the value the keeper's point read reports for k (kkAbsent if it reports "not found").
func (x *kkExec) get(ctx sdk.Context, k kkKey) int64 {
	a := x.app
	switch k.Sec {
	case "po":
		po, ok := a.EnterpriseKeeper.GetPurchaseOrder(ctx, k.ID)
		if !ok {
			return kkAbsent
		}
		return kkCoinVal(po.Amount)
	case "locked":
		if !a.EnterpriseKeeper.AccountHasLockedUnd(ctx, sdk.AccAddress(k.Addr)) {
			return kkAbsent
		}
		return kkCoinVal(a.EnterpriseKeeper.GetLockedUndForAccount(ctx, sdk.AccAddress(k.Addr)).Amount)
	case "spent":
		if !a.EnterpriseKeeper.AccountHasSpentEFUND(ctx, sdk.AccAddress(k.Addr)) {
			return kkAbsent
		}
		return kkCoinVal(a.EnterpriseKeeper.GetSpentEFUNDForAccount(ctx, sdk.AccAddress(k.Addr)).Amount)
	case "wl":
		if a.EnterpriseKeeper.AddressIsWhitelisted(ctx, sdk.AccAddress(k.Addr)) {
			return 1
		}
		return kkAbsent
	case "rq":
		if a.EnterpriseKeeper.PurchaseOrderIsInRaisedQueue(ctx, k.ID) {
			return 1
		}
		return kkAbsent
	case "aq":
		if a.EnterpriseKeeper.PurchaseOrderIsInAcceptedQueue(ctx, k.ID) {
			return 1
		}
		return kkAbsent
	case "wreg":
		wc, ok := a.WrkchainKeeper.GetWrkChain(ctx, k.ID)
		if !ok {
			return kkAbsent
		}
		return kkAtoi(wc.Moniker)
	case "wrec":
		b, ok := a.WrkchainKeeper.GetWrkChainBlock(ctx, k.ID, k.H)
		if !ok {
			return kkAbsent
		}
		return kkAtoi(b.Blockhash)
	case "wlim":
		l, ok := a.WrkchainKeeper.GetWrkChainStorageLimit(ctx, k.ID)
		if !ok {
			return kkAbsent
		}
		return int64(l.InStateLimit)
	case "breg":
		b, ok := a.BeaconKeeper.GetBeacon(ctx, k.ID)
		if !ok {
			return kkAbsent
		}
		return kkAtoi(b.Moniker)
	case "brec":
		t, ok := a.BeaconKeeper.GetBeaconTimestampByID(ctx, k.ID, k.H)
		if !ok {
			return kkAbsent
		}
		return kkAtoi(t.Hash)
	case "blim":
		l, ok := a.BeaconKeeper.GetBeaconStorageLimit(ctx, k.ID)
		if !ok {
			return kkAbsent
		}
		return int64(l.InStateLimit)
	case "str":
		s, ok := a.StreamKeeper.GetStream(ctx, sdk.AccAddress(k.R), sdk.AccAddress(k.S))
		if !ok {
			return kkAbsent
		}
		return s.FlowRate
	}
	panic("harness keys: get on " + k.Sec)
}

type kkEntry struct {
	canon string
	v     int64
}

func kkBech(sec, s string) string {
	a, err := sdk.AccAddressFromBech32(s)
	if err != nil {
		return "?"
	}
	return kkKey{Sec: sec, Addr: a}.canon()
}

// iterate: what the keeper's list function of one section returns, in its order. ids: the
// registrations whose records are listed (sections wrec / brec), ascending.
func (x *kkExec) iterate(ctx sdk.Context, sec string, ids []uint64) []kkEntry {
	a := x.app
	var out []kkEntry
	switch sec {
	case "po":
		for _, po := range a.EnterpriseKeeper.GetAllPurchaseOrders(ctx) {
			out = append(out, kkEntry{kkKey{Sec: sec, ID: po.Id}.canon(), kkCoinVal(po.Amount)})
		}
	case "locked":
		for _, l := range a.EnterpriseKeeper.GetAllLockedUnds(ctx) {
			out = append(out, kkEntry{kkBech(sec, l.Owner), kkCoinVal(l.Amount)})
		}
	case "spent":
		for _, l := range a.EnterpriseKeeper.GetAllSpentEFUNDs(ctx) {
			out = append(out, kkEntry{kkBech(sec, l.Owner), kkCoinVal(l.Amount)})
		}
	case "wl":
		for _, s := range a.EnterpriseKeeper.GetAllWhitelistedAddresses(ctx) {
			out = append(out, kkEntry{kkBech(sec, s), 1})
		}
	case "rq":
		for _, id := range a.EnterpriseKeeper.GetAllRaisedPurchaseOrders(ctx) {
			out = append(out, kkEntry{kkKey{Sec: sec, ID: id}.canon(), 1})
		}
	case "aq":
		for _, id := range a.EnterpriseKeeper.GetAllAcceptedPurchaseOrders(ctx) {
			out = append(out, kkEntry{kkKey{Sec: sec, ID: id}.canon(), 1})
		}
	case "wreg":
		for _, wc := range a.WrkchainKeeper.GetAllWrkChains(ctx) {
			out = append(out, kkEntry{kkKey{Sec: sec, ID: wc.WrkchainId}.canon(), kkAtoi(wc.Moniker)})
		}
	case "wrec":
		for _, id := range ids {
			for _, b := range a.WrkchainKeeper.GetAllWrkChainBlockHashes(ctx, id) {
				out = append(out, kkEntry{kkKey{Sec: sec, ID: id, H: b.Height}.canon(), kkAtoi(b.Blockhash)})
			}
		}
	case "breg":
		for _, b := range a.BeaconKeeper.GetAllBeacons(ctx) {
			out = append(out, kkEntry{kkKey{Sec: sec, ID: b.BeaconId}.canon(), kkAtoi(b.Moniker)})
		}
	case "brec":
		for _, id := range ids {
			for _, t := range a.BeaconKeeper.GetAllBeaconTimestamps(ctx, id) {
				out = append(out, kkEntry{kkKey{Sec: sec, ID: id, H: t.TimestampId}.canon(), kkAtoi(t.Hash)})
			}
		}
	case "str":
		a.StreamKeeper.IterateAllStreams(ctx, func(r, s sdk.AccAddress, st streamtypes.Stream) bool {
			out = append(out, kkEntry{kkKey{Sec: sec, R: r, S: s}.canon(), st.FlowRate})
			return false
		})
	default:
		panic("harness keys: iterate on " + sec)
	}
	return out
}

func kkStreamResults(rs []*streamtypes.StreamResult) []kkEntry {
	var out []kkEntry
	for _, r := range rs {
		ra, e1 := sdk.AccAddressFromBech32(r.Receiver)
		sa, e2 := sdk.AccAddressFromBech32(r.Sender)
		c := "?"
		if e1 == nil && e2 == nil {
			c = kkKey{Sec: "str", R: ra, S: sa}.canon()
		}
		v := kkBadVal
		if r.Stream != nil {
			v = r.Stream.FlowRate
		}
		out = append(out, kkEntry{c, v})
	}
	return out
}

// ---------------------------------------------------------------------------------------------

func kkInts(b []byte) []int {
	out := make([]int, len(b))
	for i, x := range b {
		out[i] = int(x)
	}
	return out
}

// realKey: what the module's own key builder produces for k.
func kkRealKey(k kkKey) []byte {
	switch k.Sec {
	case "po":
		return enttypes.PurchaseOrderKey(k.ID)
	case "locked":
		return enttypes.LockedUndAddressStoreKey(k.Addr)
	case "wl":
		return enttypes.WhitelistAddressStoreKey(k.Addr)
	case "rq":
		return enttypes.RaisedQueueStoreKey(k.ID)
	case "aq":
		return enttypes.AcceptedQueueStoreKey(k.ID)
	case "spent":
		return enttypes.SpentEFUNDAddressStoreKey(k.Addr)
	case "wreg":
		return wrkchaintypes.WrkChainKey(k.ID)
	case "wrec":
		return wrkchaintypes.WrkChainBlockKey(k.ID, k.H)
	case "wlim":
		return wrkchaintypes.WrkChainStorageLimitKey(k.ID)
	case "breg":
		return beacontypes.BeaconKey(k.ID)
	case "brec":
		return beacontypes.BeaconTimestampKey(k.ID, k.H)
	case "blim":
		return beacontypes.BeaconStorageLimitKey(k.ID)
	case "str":
		return streamtypes.GetStreamKey(k.R, k.S)
	}
	panic("harness keys: real key of " + k.Sec)
}

func kkSampleArgs(k kkKey) J {
	switch kkKind(k.Sec) {
	case "id":
		return J{"sec": k.Sec, "id": kkInts(kkBE(k.ID))}
	case "idh":
		return J{"sec": k.Sec, "id": kkInts(kkBE(k.ID)), "h": kkInts(kkBE(k.H))}
	case "addr":
		return J{"sec": k.Sec, "addr": kkInts(k.Addr)}
	default:
		return J{"sec": k.Sec, "r": kkInts(k.R), "s": kkInts(k.S)}
	}
}

func kkLess(a, b kkKey) bool {
	if ia, ib := kkSecIdx(a.Sec), kkSecIdx(b.Sec); ia != ib {
		return ia < ib
	}
	if a.ID != b.ID {
		return a.ID < b.ID
	}
	return a.H < b.H
}

func cmdKeys(fs *flag.FlagSet, in, out string, seed int64) error {
	var behaviours [][]M
	if err := readJSON(in, &behaviours); err != nil {
		return err
	}
	runs := 1
	if f := fs.Lookup("runs"); f != nil {
		if n, err := strconv.Atoi(f.Value.String()); err == nil && n > 0 {
			runs = n
		}
	}
	maxSamples := 1500
	g := DefaultGenSpec()
	g.Ent.WL = nil // the whitelist section starts empty like every other section under test
	w, err := NewWorld(g)
	if err != nil {
		return err
	}
	defer w.Close()
	if p := w.BeginBlock(1000); p != "" {
		return fmt.Errorf("BeginBlock panicked: %s", p)
	}
	base := w.Ctx()
	x := &kkExec{app: w.App}
	// every section under test must start empty, otherwise foreign entries would be reported as "?"
	for _, sec := range kkSecOrder {
		if kkHasIter(sec) && sec != "wrec" && sec != "brec" {
			if n := len(x.iterate(base, sec, nil)); n != 0 {
				return fmt.Errorf("section %s is not empty in the prepared state (%d entries)", sec, n)
			}
		}
	}
	f, err := os.Create(out)
	if err != nil {
		return err
	}
	defer f.Close()
	bw := bufio.NewWriterSize(f, 1<<20)
	defer bw.Flush()
	emit := func(v interface{}) error {
		bz, err := json.Marshal(v)
		if err != nil {
			return err
		}
		bw.Write(bz)
		return bw.WriteByte('\n')
	}

	lenTick := 0
	lens := map[int]bool{}
	modes := map[string]int{}
	sampled := map[string]bool{}
	stats := J{"behaviours": len(behaviours), "runs": runs, "ops": 0, "instantiations": 0, "keySamples": 0, "panics": 0, "setErrors": 0}
	nOps, nInst, nPanics, nSetErr := 0, 0, 0, 0
	names := []string{"K1", "K2", "K3", "K4"}

	for bi, beh := range behaviours {
		if len(beh) == 0 {
			continue
		}
		group := mStr(beh[0], "sec")
		for run := 0; run < runs; run++ {
			gen := &kkGen{rng: rand.New(rand.NewSource(seed*1000003 + int64(bi)*7919 + int64(run)*104729 + 17)), lenTick: &lenTick, lens: lens, modes: modes}
			ks := gen.instantiate(group)
			if fixed, ok := beh[0]["keys"].(map[string]interface{}); ok {
				// replay of a stored recording: the instantiation of its Reset line
				if ks, err = kkParseKeys(fixed, names); err != nil {
					return fmt.Errorf("behaviour %d: %w", bi, err)
				}
			}
			nInst++
			byName := map[string]kkKey{}
			byCanon := map[string]string{}
			instShort, instFull := J{}, J{}
			for i, n := range names {
				byName[n] = ks[i]
				byCanon[ks[i].canon()] = n
				instShort[n] = ks[i].short()
				instFull[n] = ks[i].full()
			}
			sym := func(c string) string {
				if n, ok := byCanon[c]; ok {
					return n
				}
				return "?"
			}
			if err := emit(J{"a": "Reset", "args": J{"beh": bi, "run": run, "sec": group, "keys": instFull}, "post": J{"x": 0}}); err != nil {
				return err
			}
			// the real builders' bytes for every new logical key (judged against Keys!KeyB, W = 8)
			for _, k := range ks {
				if len(sampled) < maxSamples && !sampled[k.canon()] {
					sampled[k.canon()] = true
					var key []byte
					if p := kkSafe(func() { key = kkRealKey(k) }); p != "" {
						key = []byte{}
					}
					if err := emit(J{"a": "KeySample", "args": kkSampleArgs(k), "res": J{"key": kkInts(key)}, "post": J{"x": 0}}); err != nil {
						return err
					}
				}
			}
			// sections involved, expected order, keys without a list function
			secSet := map[string]bool{}
			var secs []string
			for _, k := range ks {
				if !secSet[k.Sec] {
					secSet[k.Sec] = true
					secs = append(secs, k.Sec)
				}
			}
			sort.Slice(secs, func(a, b int) bool { return kkSecIdx(secs[a]) < kkSecIdx(secs[b]) })
			var numOrder []string
			noIter := []string{}
			{
				var num []int
				for i, k := range ks {
					if !kkHasIter(k.Sec) {
						noIter = append(noIter, names[i])
					} else if kkNumeric(k.Sec) {
						num = append(num, i)
					}
				}
				sort.Slice(num, func(a, b int) bool { return kkLess(ks[num[a]], ks[num[b]]) })
				numOrder = []string{}
				for _, i := range num {
					numOrder = append(numOrder, names[i])
				}
			}
			recIDs := map[string][]uint64{}
			for _, k := range ks {
				if kkKind(k.Sec) == "idh" {
					dup := false
					for _, y := range recIDs[k.Sec] {
						dup = dup || y == k.ID
					}
					if !dup {
						recIDs[k.Sec] = append(recIDs[k.Sec], k.ID)
					}
				}
			}
			for s := range recIDs {
				ids := recIDs[s]
				sort.Slice(ids, func(a, b int) bool { return ids[a] < ids[b] })
			}

			ctx, _ := base.CacheContext()
			for _, op := range beh {
				nOps++
				kn := mStr(op, "k")
				k, ok := byName[kn]
				if !ok {
					return fmt.Errorf("behaviour %d: unknown symbolic key %q", bi, kn)
				}
				v := mI64(op, "v")
				res := J{"ok": true}
				var opErr error
				p := kkSafe(func() {
					switch mStr(op, "op") {
					case "Set":
						opErr = x.set(ctx, k, v)
					case "Del":
						opErr = x.del(ctx, k)
					default:
						opErr = fmt.Errorf("unknown op %q", mStr(op, "op"))
					}
				})
				if p != "" {
					res["ok"], res["panic"] = false, p
					nPanics++
				} else if opErr != nil {
					res["ok"], res["err"] = false, opErr.Error()
					nSetErr++
				}
				// read everything back
				get := J{}
				for i, n := range names {
					kk := ks[i]
					var gv int64
					if p := kkSafe(func() { gv = x.get(ctx, kk) }); p != "" {
						gv = kkPanic
						nPanics++
					}
					get[n] = gv
				}
				iter := [][]interface{}{}
				for _, s := range secs {
					if !kkHasIter(s) {
						continue
					}
					var es []kkEntry
					if p := kkSafe(func() { es = x.iterate(ctx, s, recIDs[s]) }); p != "" {
						iter = append(iter, []interface{}{"!panic", kkPanic})
						res["iterPanic"] = p
						nPanics++
						continue
					}
					for _, e := range es {
						iter = append(iter, []interface{}{sym(e.canon), e.v})
					}
				}
				post := J{"get": get, "iter": iter, "numericOrder": numOrder, "noIter": noIter}
				if group == "str" {
					post["listed"] = x.listStreams(ctx, ks, names, sym, res, &nPanics)
				} else {
					post["listed"] = []interface{}{}
				}
				args := J{"op": mStr(op, "op"), "sec": group, "k": kn, "v": v, "inst": instShort}
				if err := emit(J{"a": "KeyOp", "args": args, "res": res, "post": post}); err != nil {
					return err
				}
			}
		}
	}
	var ls []int
	for l := range lens {
		ls = append(ls, l)
	}
	sort.Ints(ls)
	stats["ops"], stats["instantiations"], stats["keySamples"], stats["panics"], stats["setErrors"] = nOps, nInst, len(sampled), nPanics, nSetErr
	stats["addressLengths"] = ls
	stats["instantiationModes"] = modes
	bz, _ := json.Marshal(stats)
	fmt.Println(string(bz))
	return nil
}

// listStreams: the three gRPC list queries with a page limit far above the number of streams;
// every query's answer is mapped back to the symbolic keys by the (receiver, sender) it REPORTS.
func (x *kkExec) listStreams(ctx sdk.Context, ks []kkKey, names []string, sym func(string) string, res J, nPanics *int) []interface{} {
	out := []interface{}{}
	page := &query.PageRequest{Limit: 100000}
	gctx := sdk.WrapSDKContext(ctx)
	conv := func(es []kkEntry) [][]interface{} {
		o := [][]interface{}{}
		for _, e := range es {
			o = append(o, []interface{}{sym(e.canon), e.v})
		}
		return o
	}
	fail := func(q, of string, members []string, why string) {
		out = append(out, J{"q": q, "of": of, "members": members, "got": [][]interface{}{{"!panic", kkPanic}}})
		res["listFail:"+q+":"+of] = why
		*nPanics++
	}
	// all streams
	{
		var es []kkEntry
		var qerr error
		p := kkSafe(func() {
			r, err := x.app.StreamKeeper.Streams(gctx, &streamtypes.QueryStreamsRequest{Pagination: page})
			if err != nil {
				qerr = err
				return
			}
			es = kkStreamResults(r.Streams)
		})
		if p != "" || qerr != nil {
			fail("all", "-", names, p+fmt.Sprint(qerr))
		} else {
			out = append(out, J{"q": "all", "of": "-", "members": names, "got": conv(es)})
		}
	}
	done := map[string]bool{}
	for i, k := range ks {
		// by sender
		if c := "s" + string(k.S); !done[c] {
			done[c] = true
			members := []string{}
			for j, o := range ks {
				if bytes.Equal(o.S, k.S) {
					members = append(members, names[j])
				}
			}
			var es []kkEntry
			var qerr error
			p := kkSafe(func() {
				r, err := x.app.StreamKeeper.AllStreamsForSender(gctx, &streamtypes.QueryAllStreamsForSenderRequest{SenderAddr: sdk.AccAddress(k.S).String(), Pagination: page})
				if err != nil {
					qerr = err
					return
				}
				es = kkStreamResults(r.Streams)
			})
			if p != "" || qerr != nil {
				fail("sender", names[i], members, p+fmt.Sprint(qerr))
			} else {
				out = append(out, J{"q": "sender", "of": names[i], "members": members, "got": conv(es)})
			}
		}
		// by receiver
		if c := "r" + string(k.R); !done[c] {
			done[c] = true
			members := []string{}
			for j, o := range ks {
				if bytes.Equal(o.R, k.R) {
					members = append(members, names[j])
				}
			}
			var es []kkEntry
			var qerr error
			p := kkSafe(func() {
				r, err := x.app.StreamKeeper.AllStreamsForReceiver(gctx, &streamtypes.QueryAllStreamsForReceiverRequest{ReceiverAddr: sdk.AccAddress(k.R).String(), Pagination: page})
				if err != nil {
					qerr = err
					return
				}
				es = kkStreamResults(r.Streams)
			})
			if p != "" || qerr != nil {
				fail("receiver", names[i], members, p+fmt.Sprint(qerr))
			} else {
				out = append(out, J{"q": "receiver", "of": names[i], "members": members, "got": conv(es)})
			}
		}
	}
	return out
}
