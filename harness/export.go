package main

// ExportImport (C15): export the application state, initialise a FRESH default-configured app from
// the exported document, check every registered invariant, export again and compare the four custom
// modules' sections; afterwards the original chain is kept and stepped in lockstep with the
// re-imported one (the recording carries both projections).

import (
	"bytes"
	"encoding/json"
	"fmt"
	servertypes "github.com/cosmos/cosmos-sdk/server/types"
	simtestutil "github.com/cosmos/cosmos-sdk/testutil/sims"
	"github.com/cosmos/cosmos-sdk/types/module"
	"math/big"
	"reflect"
	"time"

	dbm "github.com/cometbft/cometbft-db"
	abci "github.com/cometbft/cometbft/abci/types"
	tmtypes "github.com/cometbft/cometbft/types"
)

var customSections = []string{"enterprise", "wrkchain", "beacon", "stream"}

func sectionsOf(appState json.RawMessage) (map[string]interface{}, error) {
	var m map[string]json.RawMessage
	if err := json.Unmarshal(appState, &m); err != nil {
		return nil, err
	}
	out := map[string]interface{}{}
	for _, s := range customSections {
		var v interface{}
		if raw, ok := m[s]; ok {
			if err := json.Unmarshal(raw, &v); err != nil {
				return nil, err
			}
		}
		out[s] = v
	}
	return out, nil
}

// ExportImport returns the result record and, on success, the world of the re-imported chain.
func (w *World) ExportImport() (res J, nw *World) { return w.ExportImportMutated("") }

// mutateGenesis edits the exported document into one whose books do not balance: the enterprise escrow account's bank
// balance is dropped ("escrow-dropped"), one coin short ("escrow-short") or one coin over ("escrow-extra"); the bank's
// supply section is left for the bank to recompute. Such a document must be refused at import.
func (w *World) mutateGenesis(appState json.RawMessage, how string) (json.RawMessage, error) {
	var doc map[string]json.RawMessage
	if err := json.Unmarshal(appState, &doc); err != nil {
		return nil, err
	}
	var bank map[string]json.RawMessage
	if err := json.Unmarshal(doc["bank"], &bank); err != nil {
		return nil, err
	}
	var bals []map[string]interface{}
	dec := json.NewDecoder(bytes.NewReader(bank["balances"]))
	dec.UseNumber()
	if err := dec.Decode(&bals); err != nil {
		return nil, err
	}
	esc := w.EntAddr.String()
	var out []map[string]interface{}
	found := false
	for _, b := range bals {
		if b["address"] == esc {
			found = true
			if how == "escrow-dropped" {
				continue
			}
			coins, _ := b["coins"].([]interface{})
			for _, c := range coins {
				cm := c.(map[string]interface{})
				if cm["denom"] == "nund" {
					n, _ := new(big.Int).SetString(fmt.Sprint(cm["amount"]), 10)
					if how == "escrow-short" {
						n.Sub(n, big.NewInt(1))
					} else {
						n.Add(n, big.NewInt(1))
					}
					cm["amount"] = n.String()
				}
			}
		}
		out = append(out, b)
	}
	if !found {
		return nil, fmt.Errorf("mutateGenesis: the escrow account holds nothing")
	}
	bz, _ := json.Marshal(out)
	bank["balances"] = bz
	bank["supply"] = json.RawMessage("[]")
	bb, _ := json.Marshal(bank)
	doc["bank"] = bb
	return json.Marshal(doc)
}

// ExportImportMutated: with mutate != "" the exported document is edited (mutateGenesis) before the import; the import is
// then expected to be refused and the original chain simply carries on.
func (w *World) ExportImportMutated(mutate string) (res J, nw *World) {
	res = J{"ok": false, "exportOk": false, "importPanic": false, "invOk": false, "idempotent": false}
	exp, err := func() (e struct {
		AppState json.RawMessage
		Vals     []tmtypes.GenesisValidator
		Height   int64
	}, err error) {
		defer func() {
			if r := recover(); r != nil {
				err = fmt.Errorf("export panic: %v", r)
			}
		}()
		// the SDK exports the modules in goroutines of their own, where a panic cannot be recovered: the four custom
		// modules are exported once here first, so that a panicking export is an observation and not a crash
		for _, name := range customSections {
			if m, ok := w.App.ModuleManager.Modules[name].(module.HasGenesis); ok {
				m.ExportGenesis(w.Ctx(), w.App.AppCodec())
			}
		}
		x, err := w.App.ExportAppStateAndValidators(false, nil, nil)
		if err != nil {
			return e, err
		}
		e.AppState, e.Vals, e.Height = x.AppState, x.Validators, x.Height
		return e, nil
	}()
	if err != nil {
		res["log"] = trunc(err.Error())
		return res, nil
	}
	res["exportOk"] = true
	if mutate != "" {
		m, err := w.mutateGenesis(exp.AppState, mutate)
		if err != nil {
			res["log"] = trunc(err.Error())
			res["mutateFailed"] = true
			return res, nil
		}
		exp.AppState = m
	}

	n := &World{Gen: w.Gen, Accts: w.Accts, ByAddr: w.ByAddr, Names: w.Names, ValSet: w.ValSet, opts: w.opts,
		EntAddr: w.EntAddr, StreamAddr: w.StreamAddr, FeeAddr: w.FeeAddr, DistrAddr: w.DistrAddr, GovAddr: w.GovAddr, GrpAddr: w.GrpAddr}
	n.Gen.DB = ""
	n.DB = dbm.NewMemDB()
	if mutate != "" {
		// the module's own import check is what must refuse the document: the node skips the crisis module's assertion
		// of all invariants at genesis (--x-crisis-skip-assert-invariants, as operators of large chains do)
		o := simtestutil.AppOptionsMap{}
		for k, v := range w.opts {
			o[k] = v
		}
		o["x-crisis-skip-assert-invariants"] = true
		n.opts = o
	}
	n.App = n.newApp(n.DB)
	var vals []abci.ValidatorUpdate
	for _, v := range exp.Vals {
		vals = append(vals, tmtypes.TM2PB.NewValidatorUpdate(v.PubKey, v.Power))
	}
	var perr interface{}
	func() {
		defer func() { perr = recover() }()
		n.App.InitChain(abci.RequestInitChain{
			ChainId:         ChainID,
			Time:            time.Unix(T0Unix, 0).UTC().Add(time.Duration(w.TimeMs) * time.Millisecond),
			Validators:      vals,
			ConsensusParams: w.App.BaseApp.GetConsensusParams(w.Ctx()),
			AppStateBytes:   exp.AppState,
			InitialHeight:   exp.Height,
		})
	}()
	if perr != nil {
		res["importPanic"] = true
		res["log"] = trunc(fmt.Sprint(perr))
		return res, nil
	}
	if mutate != "" {
		// the inconsistent document was accepted
		res["acceptedMutated"] = true
		return res, nil
	}
	n.App.Commit()
	n.Height = n.App.LastBlockHeight()
	n.TimeMs = w.TimeMs
	n.CommitTimeMs = w.TimeMs
	// every registered invariant on the fresh chain
	invOk := true
	func() {
		defer func() {
			if r := recover(); r != nil {
				invOk = false
			}
		}()
		ctx := n.Ctx()
		for _, r := range n.App.CrisisKeeper.Routes() {
			if msg, broken := r.Invar(ctx); broken {
				invOk = false
				res["invBroken"] = trunc(msg)
			}
		}
	}()
	res["invOk"] = invOk
	// export again: the four custom sections must be identical documents
	var x2 servertypes.ExportedApp
	err = func() (err error) {
		defer func() {
			if r := recover(); r != nil {
				err = fmt.Errorf("second export panic: %v", r)
			}
		}()
		for _, name := range customSections {
			if m, ok := n.App.ModuleManager.Modules[name].(module.HasGenesis); ok {
				m.ExportGenesis(n.Ctx(), n.App.AppCodec())
			}
		}
		x2, err = n.App.ExportAppStateAndValidators(false, nil, nil)
		return err
	}()
	if err == nil {
		s1, e1 := sectionsOf(exp.AppState)
		s2, e2 := sectionsOf(x2.AppState)
		same := J{}
		all := e1 == nil && e2 == nil
		for _, s := range customSections {
			eq := all && reflect.DeepEqual(s1[s], s2[s])
			same[s] = eq
			all = all && eq
		}
		res["sections"] = same
		res["idempotent"] = all
	}
	res["ok"] = true
	res["heightNew"] = n.Height
	return res, n
}
