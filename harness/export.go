package main

// ExportImport (C15): export the application state, initialise a FRESH default-configured app from
// the exported document, check every registered invariant, export again and compare the four custom
// modules' sections; afterwards the original chain is kept and stepped in lockstep with the
// re-imported one (the recording carries both projections).

import (
	"encoding/json"
	"fmt"
	servertypes "github.com/cosmos/cosmos-sdk/server/types"
	"github.com/cosmos/cosmos-sdk/types/module"
	"reflect"
	"time"

	dbm "github.com/cometbft/cometbft-db"
	abci "github.com/cometbft/cometbft/abci/types"
	tmtypes "github.com/cometbft/cometbft/types"
)

var customSections = []string{"enterprise", "wrkchain", "beacon", "stream"}

func sectionsOf(appState json.RawMessage) (map[string]interface{}, error) {
	var m map[string]json.RawMessage
	if err := json.Unmarshal(appState, &m); err != nil {
		return nil, err
	}
	out := map[string]interface{}{}
	for _, s := range customSections {
		var v interface{}
		if raw, ok := m[s]; ok {
			if err := json.Unmarshal(raw, &v); err != nil {
				return nil, err
			}
		}
		out[s] = v
	}
	return out, nil
}

// ExportImport returns the result record and, on success, the world of the re-imported chain.
func (w *World) ExportImport() (res J, nw *World) {
	res = J{"ok": false, "exportOk": false, "importPanic": false, "invOk": false, "idempotent": false}
	exp, err := func() (e struct {
		AppState json.RawMessage
		Vals     []tmtypes.GenesisValidator
		Height   int64
	}, err error) {
		defer func() {
			if r := recover(); r != nil {
				err = fmt.Errorf("export panic: %v", r)
			}
		}()
		// the SDK exports the modules in goroutines of their own, where a panic cannot be recovered: the four custom
		// modules are exported once here first, so that a panicking export is an observation and not a crash
		for _, name := range customSections {
			if m, ok := w.App.ModuleManager.Modules[name].(module.HasGenesis); ok {
				m.ExportGenesis(w.Ctx(), w.App.AppCodec())
			}
		}
		x, err := w.App.ExportAppStateAndValidators(false, nil, nil)
		if err != nil {
			return e, err
		}
		e.AppState, e.Vals, e.Height = x.AppState, x.Validators, x.Height
		return e, nil
	}()
	if err != nil {
		res["log"] = trunc(err.Error())
		return res, nil
	}
	res["exportOk"] = true

	n := &World{Gen: w.Gen, Accts: w.Accts, ByAddr: w.ByAddr, Names: w.Names, ValSet: w.ValSet, opts: w.opts,
		EntAddr: w.EntAddr, StreamAddr: w.StreamAddr, FeeAddr: w.FeeAddr, DistrAddr: w.DistrAddr, GovAddr: w.GovAddr, GrpAddr: w.GrpAddr}
	n.Gen.DB = ""
	n.DB = dbm.NewMemDB()
	n.App = n.newApp(n.DB)
	var vals []abci.ValidatorUpdate
	for _, v := range exp.Vals {
		vals = append(vals, tmtypes.TM2PB.NewValidatorUpdate(v.PubKey, v.Power))
	}
	var perr interface{}
	func() {
		defer func() { perr = recover() }()
		n.App.InitChain(abci.RequestInitChain{
			ChainId:         ChainID,
			Time:            time.Unix(T0Unix, 0).UTC().Add(time.Duration(w.TimeMs) * time.Millisecond),
			Validators:      vals,
			ConsensusParams: w.App.BaseApp.GetConsensusParams(w.Ctx()),
			AppStateBytes:   exp.AppState,
			InitialHeight:   exp.Height,
		})
	}()
	if perr != nil {
		res["importPanic"] = true
		res["log"] = trunc(fmt.Sprint(perr))
		return res, nil
	}
	n.App.Commit()
	n.Height = n.App.LastBlockHeight()
	n.TimeMs = w.TimeMs
	n.CommitTimeMs = w.TimeMs
	// every registered invariant on the fresh chain
	invOk := true
	func() {
		defer func() {
			if r := recover(); r != nil {
				invOk = false
			}
		}()
		ctx := n.Ctx()
		for _, r := range n.App.CrisisKeeper.Routes() {
			if msg, broken := r.Invar(ctx); broken {
				invOk = false
				res["invBroken"] = trunc(msg)
			}
		}
	}()
	res["invOk"] = invOk
	// export again: the four custom sections must be identical documents
	var x2 servertypes.ExportedApp
	err = func() (err error) {
		defer func() {
			if r := recover(); r != nil {
				err = fmt.Errorf("second export panic: %v", r)
			}
		}()
		for _, name := range customSections {
			if m, ok := n.App.ModuleManager.Modules[name].(module.HasGenesis); ok {
				m.ExportGenesis(n.Ctx(), n.App.AppCodec())
			}
		}
		x2, err = n.App.ExportAppStateAndValidators(false, nil, nil)
		return err
	}()
	if err == nil {
		s1, e1 := sectionsOf(exp.AppState)
		s2, e2 := sectionsOf(x2.AppState)
		same := J{}
		all := e1 == nil && e2 == nil
		for _, s := range customSections {
			eq := all && reflect.DeepEqual(s1[s], s2[s])
			same[s] = eq
			all = all && eq
		}
		res["sections"] = same
		res["idempotent"] = all
	}
	res["ok"] = true
	res["heightNew"] = n.Height
	return res, n
}
