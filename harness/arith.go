package main

// arith: the big-number region of C10 - C12 (deposits up to 2^200, rates up to 2^63-1, durations of
// thousands of years, nanosecond block times).  Input: scenarios on ONE stream A1 -> A2 in the
// denomination "other":
//   {"id", "bal": "<dec>", "feeNum", "feeDen", "steps": [{"op": "create|claim|topup|rate|cancel",
//     "dtNs": "<dec>", "amt": "<dec>", "rate": "<dec>"} ...]}
// Every step runs in its own block dtNs nanoseconds after the previous one, as ONE really signed
// transaction through DeliverTx on a real app.  Recorded per step (all numbers as decimal strings,
// times as nanoseconds since the scenario's first block): the stream before and after (read through
// the keeper), what the receiver, the fee collector and the sender gained, and the tx outcome.
// Nothing is judged here: mc/ArithTrace (Apalache) judges every step against StreamArith.tla.

import (
	"bufio"
	"encoding/json"
	"flag"
	"fmt"
	"math/big"
	"os"
	"time"

	abci "github.com/cometbft/cometbft/abci/types"
	sdk "github.com/cosmos/cosmos-sdk/types"
	sdkerrors "github.com/cosmos/cosmos-sdk/types/errors"
)

func init() { extraCmds["arith"] = cmdArith }

type arithStep struct {
	Op   string `json:"op"`
	DtNs string `json:"dtNs"`
	Amt  string `json:"amt"`
	Rate string `json:"rate"`
}
type arithScenario struct {
	ID     string      `json:"id"`
	Bal    string      `json:"bal"`
	FeeNum int64       `json:"feeNum"`
	FeeDen int64       `json:"feeDen"`
	Steps  []arithStep `json:"steps"`
}

const arithDenom = "other"

func bigOf(s string) *big.Int {
	if s == "" {
		return big.NewInt(0)
	}
	b, ok := new(big.Int).SetString(s, 10)
	if !ok {
		panic("arith: bad integer " + s)
	}
	return b
}

// nsSince gives t - base in nanoseconds as a big integer (time.Sub saturates, so go through Unix seconds).
func nsSince(t, base time.Time) *big.Int {
	d := new(big.Int).Mul(big.NewInt(t.Unix()-base.Unix()), big.NewInt(1000000000))
	return d.Add(d, big.NewInt(int64(t.Nanosecond()-base.Nanosecond())))
}

func (w *World) arithStream(base time.Time) J {
	s, ok := w.App.StreamKeeper.GetStream(w.Ctx(), w.Accts["A2"].Addr, w.Accts["A1"].Addr)
	if !ok {
		return J{"live": false, "dep": "0", "rate": "0", "last": "0", "dzt": "0"}
	}
	return J{"live": true, "dep": s.Deposit.Amount.String(), "rate": fmt.Sprint(s.FlowRate),
		"last": nsSince(s.LastOutflowTime, base).String(), "dzt": nsSince(s.DepositZeroTime, base).String(),
		"denom": s.Deposit.Denom}
}

func (w *World) arithBal(name string) *big.Int {
	var addr sdk.AccAddress
	switch name {
	case "feecol":
		addr = w.FeeAddr
	case "stream":
		addr = w.StreamAddr
	default:
		addr = w.Accts[name].Addr
	}
	return w.App.BankKeeper.GetBalance(w.Ctx(), addr, arithDenom).Amount.BigInt()
}

func cmdArith(fs *flag.FlagSet, in, out string, seed int64) error {
	var scs []arithScenario
	if err := readJSONPlain(in, &scs); err != nil {
		return err
	}
	f, err := os.Create(out)
	if err != nil {
		return err
	}
	defer f.Close()
	bw := bufio.NewWriterSize(f, 1<<20)
	defer bw.Flush()
	enc := json.NewEncoder(bw)
	enc.SetEscapeHTML(false)
	for _, sc := range scs {
		if err := runArith(sc, enc); err != nil {
			return fmt.Errorf("scenario %s: %w", sc.ID, err)
		}
	}
	return nil
}

func runArith(sc arithScenario, enc *json.Encoder) error {
	g := DefaultGenSpec()
	g.Accts = []string{"A1", "A2"}
	g.Bal = map[string]map[string]int64{"A1": {"nund": 1000}, "A2": {"nund": 1000}}
	g.BigBal = map[string]map[string]string{"A1": {arithDenom: sc.Bal}}
	g.Ent.Signers, g.Ent.WL = []string{"A1"}, nil
	g.Str = StrGen{FeeNum: sc.FeeNum, FeeDen: sc.FeeDen}
	w, err := NewWorld(g)
	if err != nil {
		return err
	}
	defer w.Close()
	base := w.header().Time
	for k, st := range sc.Steps {
		dt := bigOf(st.DtNs)
		// advance the clock by dt nanoseconds (beyond the range of time.Duration: whole seconds first)
		sec := new(big.Int).Quo(dt, big.NewInt(1000000000))
		ns := new(big.Int).Rem(dt, big.NewInt(1000000000))
		cur := w.header().Time
		next := time.Unix(cur.Unix()+sec.Int64(), int64(cur.Nanosecond())+ns.Int64()).UTC()
		w.AbsTime = &next
		if p := w.BeginBlock(0); p != "" {
			return fmt.Errorf("BeginBlock panicked: %s", p)
		}
		now := nsSince(w.header().Time, base)
		// the validator-fee rate exactly as stored: an 18-decimal fixed-point number (1/3 is stored as 0.333333333333333333)
		feeNum := w.App.StreamKeeper.GetParams(w.Ctx()).ValidatorFee.BigInt().String()
		feeDen := "1000000000000000000"
		pre := w.arithStream(base)
		funds := w.arithBal("A1")
		b0 := map[string]*big.Int{"A1": w.arithBal("A1"), "A2": w.arithBal("A2"), "feecol": w.arithBal("feecol"), "stream": w.arithBal("stream")}
		var msg M
		switch st.Op {
		case "create":
			msg = M{"t": "SCreate", "sender": "A1", "receiver": "A2", "dep": st.Amt, "denom": arithDenom, "rate": st.Rate}
		case "claim":
			msg = M{"t": "SClaim", "sender": "A1", "receiver": "A2"}
		case "topup":
			msg = M{"t": "STopUp", "sender": "A1", "receiver": "A2", "dep": st.Amt, "denom": arithDenom}
		case "rate":
			msg = M{"t": "SRate", "sender": "A1", "receiver": "A2", "rate": st.Rate}
		case "cancel":
			msg = M{"t": "SCancel", "sender": "A1", "receiver": "A2"}
		default:
			return fmt.Errorf("unknown op %q", st.Op)
		}
		t := parseTxSpec(M{"msgs": []interface{}{msg}})
		var bz []byte
		var berr error
		func() {
			defer func() {
				if x := recover(); x != nil {
					berr = fmt.Errorf("build panic: %v", x)
				}
			}()
			bz, _, berr = w.BuildTx(w.Ctx(), t)
		}()
		if berr != nil {
			return berr
		}
		rr := w.App.DeliverTx(abci.RequestDeliverTx{Tx: bz})
		post := w.arithStream(base)
		delta := func(n string) string { return new(big.Int).Sub(w.arithBal(n), b0[n]).String() }
		rec := J{"a": "Arith", "id": sc.ID, "step": k + 1, "op": st.Op, "amt": bigOf(st.Amt).String(), "rate": bigOf(st.Rate).String(),
			"now": now.String(), "feeNum": feeNum, "feeDen": feeDen, "funds": funds.String(),
			"pre": pre, "post": post,
			"res":  J{"ok": rr.Code == 0, "code": rr.Code, "cs": rr.Codespace, "panic": rr.Code == sdkerrors.ErrPanic.ABCICode() && rr.Codespace == sdkerrors.ErrPanic.Codespace(), "log": trunc(rr.Log)},
			"gain": J{"A1": delta("A1"), "A2": delta("A2"), "feecol": delta("feecol"), "stream": delta("stream")}}
		if err := enc.Encode(rec); err != nil {
			return err
		}
		if p := w.EndBlock(); p != "" {
			return fmt.Errorf("EndBlock panicked: %s", p)
		}
		if p := w.Commit(); p != "" {
			return fmt.Errorf("Commit panicked: %s", p)
		}
	}
	return nil
}
