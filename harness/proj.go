package main

// proj: the abstract state of DESIGN §3.2, read back through public API after an ABCI call
// returned. JSON-isomorphic (ints, strings, bools, arrays, objects with string keys) so that TLC's
// ndJsonDeserialize yields exactly the specification's state value.

import (
	"crypto/sha256"
	"encoding/hex"
	"fmt"
	"math/big"
	"strings"
	"time"

	sdk "github.com/cosmos/cosmos-sdk/types"
	"github.com/cosmos/cosmos-sdk/types/query"
	"github.com/cosmos/cosmos-sdk/x/authz"
	banktypes "github.com/cosmos/cosmos-sdk/x/bank/types"
	"github.com/cosmos/cosmos-sdk/x/feegrant"

	beacontypes "github.com/unification-com/mainchain/x/beacon/types"
	enttypes "github.com/unification-com/mainchain/x/enterprise/types"
	streamtypes "github.com/unification-com/mainchain/x/stream/types"
	wrkchaintypes "github.com/unification-com/mainchain/x/wrkchain/types"
)

const CAP = int64(500000000)

var (
	two63 = new(big.Int).Lsh(big.NewInt(1), 63)
	two64 = new(big.Int).Lsh(big.NewInt(1), 64)
)

// absBig is the saturating, order-preserving abstraction of big numbers (DESIGN §3.3):
// n < CAP -> n; [CAP,2^63) -> CAP; [2^63, 2^64-1000) -> CAP+1000+min(n-2^63,999);
// [2^64-1000, 2^64) -> CAP+2000+(n-(2^64-1000)); >= 2^64 -> CAP+4000.
func absBig(n *big.Int) int64 {
	if n.Sign() < 0 {
		if n.Cmp(big.NewInt(-CAP)) > 0 {
			return n.Int64()
		}
		return -CAP
	}
	if n.Cmp(big.NewInt(CAP)) < 0 {
		return n.Int64()
	}
	if n.Cmp(two63) < 0 {
		return CAP
	}
	top := new(big.Int).Sub(two64, big.NewInt(1000))
	if n.Cmp(top) < 0 {
		d := new(big.Int).Sub(n, two63)
		if d.Cmp(big.NewInt(999)) > 0 {
			return CAP + 1999
		}
		return CAP + 1000 + d.Int64()
	}
	if n.Cmp(two64) < 0 {
		return CAP + 2000 + new(big.Int).Sub(n, top).Int64()
	}
	return CAP + 4000
}
func absU64(n uint64) int64  { return absBig(new(big.Int).SetUint64(n)) }
func absInt(n sdk.Int) int64 { return absBig(n.BigInt()) }
func absI64(n int64) int64   { return absBig(big.NewInt(n)) }

// concBig inverts absBig on the values schedules use.
func concBig(a int64) *big.Int {
	switch {
	case a < CAP:
		return big.NewInt(a)
	case a == CAP:
		return big.NewInt(CAP)
	case a < CAP+2000:
		return new(big.Int).Add(two63, big.NewInt(a-CAP-1000))
	case a < CAP+4000:
		return new(big.Int).Add(new(big.Int).Sub(two64, big.NewInt(1000)), big.NewInt(a-CAP-2000))
	}
	return new(big.Int).Set(two64)
}

// msOf gives model milliseconds since T0, clamped.
func msOf(t time.Time) int64 {
	if t.IsZero() {
		return -2000000000
	}
	d := t.Sub(time.Unix(T0Unix, 0))
	ms := d.Milliseconds()
	if d < 0 && d > -time.Hour*24*365*100 {
		ms = d.Milliseconds()
	}
	if t.Before(time.Unix(T0Unix, 0).Add(-2000000 * time.Second)) {
		return -2000000000
	}
	if ms > 2000000000 {
		return 2000000000
	}
	return ms
}

// secOf maps a stored unix-second value to model seconds since T0, clamped.
func secOf(u uint64) int64 {
	if u > uint64(T0Unix)+2000000 {
		return 2000000
	}
	d := int64(u) - T0Unix
	if d < -2000000 {
		return -2000000
	}
	return d
}

func statusStr(s enttypes.PurchaseOrderStatus) string {
	switch s {
	case enttypes.StatusRaised:
		return "raised"
	case enttypes.StatusAccepted:
		return "accepted"
	case enttypes.StatusRejected:
		return "rejected"
	case enttypes.StatusCompleted:
		return "completed"
	}
	return "nil"
}

type J = map[string]interface{}

// Track holds what the harness must remember to re-query "everything ever accepted".
type Track struct {
	WrkEver map[uint64][]uint64 // chain id -> heights ever accepted (ascending by construction)
	BcnEver map[uint64][]uint64
	Accts   []string
}

// partyNames: the scenario accounts plus the governance module account (a party of its own through proposals).
// ... and the group policy account (a party through group proposals).
func (w *World) partyNames() []string { return append(append([]string{}, w.Names...), "gov", "grp") }

func (w *World) partyAddr(n string) sdk.AccAddress {
	if n == "gov" {
		return w.GovAddr
	}
	if n == "grp" {
		return w.GrpAddr
	}
	return w.Accts[n].Addr
}

func (w *World) acctNames() []string {
	return append(append([]string{}, w.Names...), "V")
}

func (w *World) balJ(ctx sdk.Context, addr sdk.AccAddress) J {
	out := J{}
	for _, d := range Denoms {
		out[d] = absInt(w.App.BankKeeper.GetBalance(ctx, addr, d).Amount)
	}
	return out
}

func (w *World) signerNames(s string) []interface{} {
	out := []interface{}{}
	for _, p := range strings.Split(s, ",") {
		out = append(out, w.nameOf(p))
	}
	return out
}

// Project reads the abstract state.
func (w *World) Project(tr *Track) (res J) {
	ctx := w.Ctx()
	gctx := sdk.WrapSDKContext(ctx)
	a := w.App
	res = J{"time": w.TimeMs, "height": w.Height, "halted": w.Halted}

	// --- bank
	bal := J{}
	spend := J{}
	for _, n := range w.partyNames() {
		ad := w.partyAddr(n)
		bal[n] = w.balJ(ctx, ad)
		sp := J{}
		sc := a.BankKeeper.SpendableCoins(ctx, ad)
		for _, d := range Denoms {
			sp[d] = absInt(sc.AmountOf(d))
		}
		spend[n] = sp
	}
	bal["ent"] = w.balJ(ctx, w.EntAddr)
	bal["stream"] = w.balJ(ctx, w.StreamAddr)
	fees := J{}
	for _, d := range Denoms {
		fees[d] = absInt(a.BankKeeper.GetBalance(ctx, w.FeeAddr, d).Amount.Add(a.BankKeeper.GetBalance(ctx, w.DistrAddr, d).Amount))
	}
	bal["fees"] = fees
	res["bal"] = bal
	res["spend"] = spend
	supply := J{}
	sumBal := J{}
	sums := map[string]sdk.Int{}
	a.BankKeeper.IterateAllBalances(ctx, func(_ sdk.AccAddress, c sdk.Coin) bool {
		if v, ok := sums[c.Denom]; ok {
			sums[c.Denom] = v.Add(c.Amount)
		} else {
			sums[c.Denom] = c.Amount
		}
		return false
	})
	otherOk := true
	seen := map[string]bool{}
	a.BankKeeper.IterateTotalSupply(ctx, func(c sdk.Coin) bool {
		seen[c.Denom] = true
		s, ok := sums[c.Denom]
		if !ok {
			s = sdk.ZeroInt()
		}
		if !isProjDenom(c.Denom) && !s.Equal(c.Amount) {
			otherOk = false
		}
		return false
	})
	for d, s := range sums {
		if !seen[d] && !s.IsZero() {
			otherOk = false
		}
	}
	for _, d := range Denoms {
		supply[d] = absInt(a.BankKeeper.GetSupply(ctx, d).Amount)
		if s, ok := sums[d]; ok {
			sumBal[d] = absInt(s)
		} else {
			sumBal[d] = int64(0)
		}
	}
	res["supply"] = supply
	res["sumBal"] = sumBal
	res["otherDenomsOk"] = otherOk

	// --- enterprise
	res["ent"] = w.projEnt(ctx)
	res["wrk"] = w.projWrk(ctx, tr)
	res["bcn"] = w.projBcn(ctx, tr)
	res["str"] = w.projStr(ctx)
	res["vest"] = w.projVest(ctx)
	// x/authz grants: "granter/grantee/type" -> 1
	grants := J{}
	w.App.AuthzKeeper.IterateGrants(ctx, func(granter, grantee sdk.AccAddress, g authz.Grant) bool {
		t := "?"
		if a, err := g.GetAuthorization(); err == nil {
			t = msgTypeOfURL(a.MsgTypeURL())
		}
		grants[w.nameOf(granter.String())+"/"+w.nameOf(grantee.String())+"/"+t] = 1
		return false
	})
	res["grants"] = grants
	// x/feegrant allowances: "granter/grantee" -> 1
	fgrants := J{}
	_ = w.App.FeeGrantKeeper.IterateAllFeeAllowances(ctx, func(g feegrant.Grant) bool {
		fgrants[w.nameOf(g.Granter)+"/"+w.nameOf(g.Grantee)] = 1
		return false
	})
	res["fgrants"] = fgrants
	// digests of the four custom modules' whole KV stores (what no query shows is still compared, C14)
	dig := J{}
	for name, key := range map[string]string{"ent": enttypes.StoreKey, "wrk": wrkchaintypes.StoreKey, "bcn": beacontypes.StoreKey, "str": streamtypes.StoreKey} {
		h := sha256.New()
		it := ctx.KVStore(a.GetKey(key)).Iterator(nil, nil)
		for ; it.Valid(); it.Next() {
			k, v := it.Key(), it.Value()
			h.Write([]byte{byte(len(k) >> 8), byte(len(k))})
			h.Write(k)
			h.Write([]byte{byte(len(v) >> 24), byte(len(v) >> 16), byte(len(v) >> 8), byte(len(v))})
			h.Write(v)
		}
		it.Close()
		dig[name] = hex.EncodeToString(h.Sum(nil)[:8])
	}
	res["dig"] = dig
	if !w.InBlock {
		// a panicking query server is an observation (C17), not a harness failure
		func() {
			defer func() {
				if r := recover(); r != nil {
					res["qpanic"] = true
				}
			}()
			res["q"] = w.projSupplyQueries(ctx)
		}()
	}
	_ = gctx
	return res
}

func isProjDenom(d string) bool {
	for _, x := range Denoms {
		if x == d {
			return true
		}
	}
	return false
}

func (w *World) projEnt(ctx sdk.Context) J {
	k := w.App.EnterpriseKeeper
	g := sdk.WrapSDKContext(ctx)
	e := J{}
	pr, err := k.Params(g, &enttypes.QueryParamsRequest{})
	if err != nil {
		panic(err)
	}
	p := pr.Params
	e["p"] = J{"signers": w.signerNames(p.EntSigners), "min": absU64(p.MinAccepts), "limit": absU64(p.DecisionTimeLimit), "denom": p.Denom}
	next, _ := k.GetHighestPurchaseOrderID(ctx)
	e["next"] = absU64(next)
	start := w.Gen.Ent.StartID
	if start == 0 {
		start = 1
	}
	e["start"] = absU64(start)
	pos := []interface{}{}
	for id := start; id < next && id < start+200; id++ {
		r, err := k.EnterpriseUndPurchaseOrder(g, &enttypes.QueryEnterpriseUndPurchaseOrderRequest{PurchaseOrderId: id})
		if err != nil {
			pos = append(pos, J{"id": absU64(id), "missing": true})
			continue
		}
		o := r.PurchaseOrder
		decs := []interface{}{}
		for _, d := range o.Decisions {
			decs = append(decs, J{"s": w.nameOf(d.Signer), "d": statusStr(d.Decision), "t": secOf(d.DecisionTime)})
		}
		ct := int64(-1)
		if o.CompletionTime != 0 {
			ct = secOf(o.CompletionTime)
		}
		pos = append(pos, J{"id": absU64(o.Id), "pur": w.nameOf(o.Purchaser), "amt": absInt(o.Amount.Amount), "den": o.Amount.Denom,
			"st": statusStr(o.Status), "rt": secOf(o.RaiseTime), "ct": ct, "dec": decs})
	}
	e["po"] = pos
	rq := []interface{}{}
	for _, id := range k.GetAllRaisedPurchaseOrders(ctx) {
		rq = append(rq, absU64(id))
	}
	aq := []interface{}{}
	for _, id := range k.GetAllAcceptedPurchaseOrders(ctx) {
		aq = append(aq, absU64(id))
	}
	e["rq"] = rq
	e["aq"] = aq
	wlr, err := k.Whitelist(g, &enttypes.QueryWhitelistRequest{})
	if err != nil {
		panic(err)
	}
	wl := J{}
	for _, n := range w.partyNames() {
		wl[n] = false
	}
	wlExtra := int64(0)
	for _, ad := range wlr.Addresses {
		n := w.nameOf(ad)
		if contains(w.partyNames(), n) {
			wl[n] = true
		} else {
			wlExtra++
		}
	}
	e["wl"] = wl
	e["wlExtra"] = wlExtra
	locked, spent := J{}, J{}
	lockedDenOk := true
	for _, n := range w.partyNames() {
		ad := w.partyAddr(n).String()
		lr, err := k.LockedUndByAddress(g, &enttypes.QueryLockedUndByAddressRequest{Owner: ad})
		if err != nil {
			panic(err)
		}
		locked[n] = absInt(lr.Amount.Amount)
		sr, err := k.SpentEFUNDByAddress(g, &enttypes.QuerySpentEFUNDByAddressRequest{Address: ad})
		if err != nil {
			panic(err)
		}
		spent[n] = absInt(sr.Amount.Amount)
	}
	// books kept for addresses outside the scenario's account list (must stay empty)
	extraLocked := int64(0)
	for _, l := range k.GetAllLockedUnds(ctx) {
		if n := w.nameOf(l.Owner); strings.HasPrefix(n, "?") || n == "V" || !contains(w.partyNames(), n) {
			extraLocked += absInt(l.Amount.Amount)
		}
	}
	e["locked"] = locked
	e["spent"] = spent
	e["extraLocked"] = extraLocked
	tl, _ := k.TotalLocked(g, &enttypes.QueryTotalLockedRequest{})
	ts, _ := k.TotalSpentEFUND(g, &enttypes.QueryTotalSpentEFUNDRequest{})
	e["totLocked"] = absInt(tl.Amount.Amount)
	e["totLockedDen"] = tl.Amount.Denom
	e["totSpent"] = absInt(ts.Amount.Amount)
	e["lockedDenOk"] = lockedDenOk
	// the module's own registered invariant, evaluated under recover
	e["inv"] = w.invariantHolds("enterprise")
	return e
}

func contains(xs []string, s string) bool {
	for _, x := range xs {
		if x == s {
			return true
		}
	}
	return false
}

func (w *World) invariantHolds(mod string) (ok bool) {
	defer func() {
		if r := recover(); r != nil {
			ok = false
		}
	}()
	ctx := w.Ctx()
	for _, r := range w.App.CrisisKeeper.Routes() {
		if r.ModuleName == mod {
			if _, broken := r.Invar(ctx); broken {
				return false
			}
		}
	}
	return true
}

func (w *World) projWrk(ctx sdk.Context, tr *Track) J {
	k := w.App.WrkchainKeeper
	g := sdk.WrapSDKContext(ctx)
	out := J{}
	pr, err := k.Params(g, &wrkchaintypes.QueryParamsRequest{})
	if err != nil {
		panic(err)
	}
	p := pr.Params
	out["p"] = J{"feeReg": absU64(p.FeeRegister), "feeRec": absU64(p.FeeRecord), "feePur": absU64(p.FeePurchaseStorage),
		"denom": p.Denom, "def": absU64(p.DefaultStorageLimit), "max": absU64(p.MaxStorageLimit)}
	next, _ := k.GetHighestWrkChainID(ctx)
	start := w.Gen.Wrk.StartID
	if start == 0 {
		start = 1
	}
	out["next"] = absU64(next)
	out["start"] = absU64(start)
	chs := []interface{}{}
	for id := start; id < next && id < start+100; id++ {
		r, err := k.WrkChain(g, &wrkchaintypes.QueryWrkChainRequest{WrkchainId: id})
		if err != nil {
			chs = append(chs, J{"id": absU64(id), "missing": true})
			continue
		}
		c := r.Wrkchain
		cj := J{"id": absU64(c.WrkchainId), "owner": w.nameOf(c.Owner), "moniker": c.Moniker, "name": c.Name, "genesis": c.Genesis,
			"type": c.Type, "reg": secOf(c.RegTime), "last": absU64(c.Lastblock), "num": absU64(c.NumBlocks), "low": absU64(c.LowestHeight)}
		lim, hasLim := k.GetWrkChainStorageLimit(ctx, id)
		cj["limit"] = absU64(lim.InStateLimit)
		cj["hasLimit"] = hasLim
		if sr, err := k.WrkChainStorage(g, &wrkchaintypes.QueryWrkChainStorageRequest{WrkchainId: id}); err == nil {
			cj["stor"] = J{"limit": absU64(sr.CurrentLimit), "used": absU64(sr.CurrentUsed), "max": absU64(sr.Max), "maxp": absU64(sr.MaxPurchasable)}
		} else {
			cj["stor"] = J{"err": true}
		}
		recs := []interface{}{}
		if tr != nil {
			for _, h := range tr.WrkEver[id] {
				br, err := k.WrkChainBlock(g, &wrkchaintypes.QueryWrkChainBlockRequest{WrkchainId: id, Height: h})
				if err != nil {
					continue
				}
				b := br.Block
				recs = append(recs, J{"h": absU64(b.Height), "bh": b.Blockhash, "ph": b.Parenthash, "h1": b.Hash1, "h2": b.Hash2, "h3": b.Hash3,
					"st": secOf(b.SubTime), "qowner": w.nameOf(br.Owner), "qid": absU64(br.WrkchainId)})
			}
		}
		cj["recs"] = recs
		iter := []interface{}{}
		for _, b := range k.GetAllWrkChainBlockHashes(ctx, id) {
			iter = append(iter, absU64(b.Height))
		}
		cj["iter"] = iter
		chs = append(chs, cj)
	}
	out["ch"] = chs
	return out
}

func (w *World) projBcn(ctx sdk.Context, tr *Track) J {
	k := w.App.BeaconKeeper
	g := sdk.WrapSDKContext(ctx)
	out := J{}
	pr, err := k.Params(g, &beacontypes.QueryParamsRequest{})
	if err != nil {
		panic(err)
	}
	p := pr.Params
	out["p"] = J{"feeReg": absU64(p.FeeRegister), "feeRec": absU64(p.FeeRecord), "feePur": absU64(p.FeePurchaseStorage),
		"denom": p.Denom, "def": absU64(p.DefaultStorageLimit), "max": absU64(p.MaxStorageLimit)}
	next, _ := k.GetHighestBeaconID(ctx)
	start := w.Gen.Bcn.StartID
	if start == 0 {
		start = 1
	}
	out["next"] = absU64(next)
	out["start"] = absU64(start)
	chs := []interface{}{}
	for id := start; id < next && id < start+100; id++ {
		r, err := k.Beacon(g, &beacontypes.QueryBeaconRequest{BeaconId: id})
		if err != nil {
			chs = append(chs, J{"id": absU64(id), "missing": true})
			continue
		}
		c := r.Beacon
		cj := J{"id": absU64(c.BeaconId), "owner": w.nameOf(c.Owner), "moniker": c.Moniker, "name": c.Name,
			"reg": secOf(c.RegTime), "last": absU64(c.LastTimestampId), "num": absU64(c.NumInState), "low": absU64(c.FirstIdInState)}
		lim, hasLim := k.GetBeaconStorageLimit(ctx, id)
		cj["limit"] = absU64(lim.InStateLimit)
		cj["hasLimit"] = hasLim
		if sr, err := k.BeaconStorage(g, &beacontypes.QueryBeaconStorageRequest{BeaconId: id}); err == nil {
			cj["stor"] = J{"limit": absU64(sr.CurrentLimit), "used": absU64(sr.CurrentUsed), "max": absU64(sr.Max), "maxp": absU64(sr.MaxPurchasable)}
		} else {
			cj["stor"] = J{"err": true}
		}
		recs := []interface{}{}
		if tr != nil {
			for _, h := range tr.BcnEver[id] {
				br, err := k.BeaconTimestamp(g, &beacontypes.QueryBeaconTimestampRequest{BeaconId: id, TimestampId: h})
				if err != nil {
					continue
				}
				b := br.Timestamp
				recs = append(recs, J{"h": absU64(b.TimestampId), "hash": b.Hash, "st": absU64(b.SubmitTime), "qowner": w.nameOf(br.Owner), "qid": absU64(br.BeaconId)})
			}
		}
		cj["recs"] = recs
		iter := []interface{}{}
		for _, b := range k.GetAllBeaconTimestamps(ctx, id) {
			iter = append(iter, absU64(b.TimestampId))
		}
		cj["iter"] = iter
		chs = append(chs, cj)
	}
	out["ch"] = chs
	return out
}

func decFrac(d sdk.Dec) (int64, int64) {
	// validator fee as an exact fraction num/den with den = 10^6 when representable, else 10^18 saturated
	if d.IsNil() {
		return -1, 1
	}
	m := d.MulInt64(1000000)
	if m.IsInteger() {
		n, q := m.TruncateInt64(), int64(1000000)
		for _, p := range []int64{2, 5} {
			for n%p == 0 && q%p == 0 && n != 0 {
				n, q = n/p, q/p
			}
		}
		if n == 0 {
			q = 1
		}
		return n, q
	}
	return -2, 1
}

func (w *World) projStr(ctx sdk.Context) J {
	k := w.App.StreamKeeper
	g := sdk.WrapSDKContext(ctx)
	out := J{}
	pr, err := k.Params(g, &streamtypes.QueryParamsRequest{})
	if err != nil {
		panic(err)
	}
	n, d := decFrac(pr.Params.ValidatorFee)
	out["p"] = J{"feeNum": n, "feeDen": d}
	ss := J{}
	// all streams through the paginated list query (large page), cross-checked by point query
	var resp *streamtypes.QueryStreamsResponse
	func() {
		defer func() {
			if r := recover(); r != nil {
				err = fmt.Errorf("stream list query panicked: %v", r)
				out["listPanic"] = true
			}
		}()
		resp, err = k.Streams(g, &streamtypes.QueryStreamsRequest{Pagination: &query.PageRequest{Limit: 1000}})
	}()
	listed := []interface{}{}
	if err == nil {
		for _, s := range resp.Streams {
			key := w.nameOf(s.Receiver) + "/" + w.nameOf(s.Sender)
			listed = append(listed, key)
		}
	}
	out["listed"] = listed
	parties := append(append([]string{}, w.Names...), "grp")
	for _, r := range parties {
		for _, s := range parties {
			if r == s {
				continue
			}
			q, err := k.StreamByReceiverSender(g, &streamtypes.QueryStreamByReceiverSenderRequest{
				ReceiverAddr: w.partyAddr(r).String(), SenderAddr: w.partyAddr(s).String()})
			if err != nil {
				continue
			}
			st := q.Stream.Stream
			ss[r+"/"+s] = J{"dep": absInt(st.Deposit.Amount), "den": st.Deposit.Denom, "rate": absI64(st.FlowRate),
				"last": msOf(st.LastOutflowTime), "dzt": msOf(st.DepositZeroTime), "canc": st.Cancellable}
		}
	}
	// streams whose parties are not scenario accounts (a module account as receiver ...) are taken from the list query
	if err == nil {
		for _, s := range resp.Streams {
			key := w.nameOf(s.Receiver) + "/" + w.nameOf(s.Sender)
			if _, ok := ss[key]; !ok && s.Stream != nil {
				st := s.Stream
				ss[key] = J{"dep": absInt(st.Deposit.Amount), "den": st.Deposit.Denom, "rate": absI64(st.FlowRate),
					"last": msOf(st.LastOutflowTime), "dzt": msOf(st.DepositZeroTime), "canc": st.Cancellable}
			}
		}
	}
	out["s"] = ss
	out["order"] = w.streamOrder(sortedKeys(ss))
	out["inv"] = w.invariantHolds("stream")
	return out
}

var _ = banktypes.ModuleName
var _ = fmt.Sprint
