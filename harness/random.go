package main

import "fmt"

func cmdRandom(profile string, seed int64, steps, runs int, out string) error {
	return fmt.Errorf("not implemented")
}
