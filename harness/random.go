package main

// Seeded random driver: long histories with arguments aimed, by looking at the live state, both at
// valid and at adversarial cases. It only chooses the schedule; the verdict on the recording is
// TLC's (Trace.tla).

import (
	"bufio"
	"fmt"
	"math/rand"
	"os"
	"strings"
)

type Driver struct {
	R       *Runner
	Rng     *rand.Rand
	Profile string
	// bookkeeping to aim arguments
	nextHash int
}

func (d *Driver) pick(xs []string) string { return xs[d.Rng.Intn(len(xs))] }
func (d *Driver) chance(p float64) bool   { return d.Rng.Float64() < p }
func (d *Driver) rint(lo, hi int) int     { return lo + d.Rng.Intn(hi-lo+1) }

func (d *Driver) hash() string {
	d.nextHash++
	return fmt.Sprintf("h%d", d.nextHash)
}

func randGen(rng *rand.Rand, profile string) GenSpec {
	g := DefaultGenSpec()
	g.Accts = []string{"A1", "A2", "A3", "A4", "A5"}
	for _, a := range g.Accts {
		g.Bal[a] = map[string]int64{"nund": int64(rng.Intn(4)) * 400, "other": int64(rng.Intn(3)) * 500}
	}
	g.Bal["A1"]["nund"] = 2000
	g.Bal["A2"]["nund"] = 1500
	ns := 1 + rng.Intn(3)
	g.Ent.Signers = g.Accts[:ns]
	g.Ent.Min = uint64(1 + rng.Intn(ns))
	g.Ent.Limit = uint64(1 + rng.Intn(5))
	g.Ent.WL = []string{"A3", "A4", "A5"}[:1+rng.Intn(3)]
	g.Wrk = RegGen{FeeReg: uint64(10 + rng.Intn(20)), FeeRec: uint64(1 + rng.Intn(3)), FeePur: uint64(1 + rng.Intn(4)), Denom: "nund",
		Def: uint64(1 + rng.Intn(2)), StartID: uint64(1 + 6*rng.Intn(2))}
	g.Wrk.Max = g.Wrk.Def + uint64(rng.Intn(4))
	g.Bcn = RegGen{FeeReg: uint64(10 + rng.Intn(20)), FeeRec: uint64(1 + rng.Intn(3)), FeePur: uint64(1 + rng.Intn(4)), Denom: "nund",
		Def: uint64(1 + rng.Intn(2)), StartID: 1}
	g.Bcn.Max = g.Bcn.Def + uint64(rng.Intn(4))
	vf := [][2]int64{{0, 1}, {1, 100}, {1, 2}, {1, 1}, {1, 4}}[rng.Intn(5)]
	g.Str.FeeNum, g.Str.FeeDen = vf[0], vf[1]
	// starting ids: not dense from 1; across a byte boundary of the id's big-endian key
	g.Ent.StartID = uint64(1 + 3*rng.Intn(2))
	g.Bcn.StartID = []uint64{1, 1, 255}[rng.Intn(3)]
	if rng.Intn(4) == 0 {
		g.Wrk.StartID = 255
	}
	if rng.Intn(4) == 0 {
		// the production storage limits (DefaultParams): "limit = default" is then also "limit = the code's constant"
		g.Wrk.Def, g.Wrk.Max = 50000, 600000
		g.Bcn.Def, g.Bcn.Max = 50000, 600000
	}
	if (profile == "ent" || profile == "mix") && rng.Intn(2) == 0 {
		// a purchaser whose funds are still vesting (delayed vesting, nothing vested inside a scenario)
		who := []string{"A3", "A4"}[rng.Intn(2)]
		g.Vesting = map[string]map[string]int64{who: {"nund": int64(100 + 100*rng.Intn(3)), "other": 0}}
	}
	return g
}

func genToM(g GenSpec) M {
	bal := M{}
	for a, m := range g.Bal {
		bm := M{}
		for k, v := range m {
			bm[k] = v
		}
		bal[a] = bm
	}
	reg := func(r RegGen) M {
		return M{"feeReg": r.FeeReg, "feeRec": r.FeeRec, "feePur": r.FeePur, "denom": r.Denom, "def": r.Def, "max": r.Max, "startId": r.StartID}
	}
	toI := func(xs []string) []interface{} {
		o := []interface{}{}
		for _, x := range xs {
			o = append(o, x)
		}
		return o
	}
	m := M{"accts": toI(g.Accts), "bal": bal,
		"ent": M{"signers": toI(g.Ent.Signers), "min": g.Ent.Min, "limit": g.Ent.Limit, "denom": g.Ent.Denom, "wl": toI(g.Ent.WL), "startId": g.Ent.StartID},
		"wrk": reg(g.Wrk), "bcn": reg(g.Bcn), "str": M{"feeNum": g.Str.FeeNum, "feeDen": g.Str.FeeDen}}
	if len(g.Vesting) > 0 {
		v := M{}
		for a, mm := range g.Vesting {
			vm := M{}
			for k, x := range mm {
				vm[k] = x
			}
			v[a] = vm
		}
		m["vesting"] = v
	}
	if g.DB != "" {
		m["db"] = g.DB
	}
	return m
}

// ---- message generators -------------------------------------------------

func (d *Driver) w() *World { return d.R.W }

func (d *Driver) anyAcct() string { return d.pick(d.w().Names) }

// anyParty: a scenario account or, now and then, the group policy account (it acts through group proposals only)
func (d *Driver) anyParty() string {
	if d.chance(0.12) {
		return "grp"
	}
	return d.anyAcct()
}

// parties: the scenario accounts and the group policy account
func (d *Driver) parties() []string { return append(append([]string{}, d.w().Names...), "grp") }

// groupWrap puts every message the group policy account has to sign into a group proposal submitted (and executed
// at once) by a member - now and then by a stranger; neighbouring ones sometimes share one proposal.
func (d *Driver) groupWrap(msgs []interface{}) []interface{} {
	var out []interface{}
	for i := 0; i < len(msgs); {
		m := msgs[i].(M)
		if mStr(m, SignerField(m)) != "grp" || mStr(m, "t") == "GExec" {
			out = append(out, m)
			i++
			continue
		}
		run := []interface{}{m}
		i++
		for i < len(msgs) && d.chance(0.5) {
			n := msgs[i].(M)
			if mStr(n, SignerField(n)) != "grp" {
				break
			}
			run = append(run, n)
			i++
		}
		member := d.pick([]string{"A1", "A2"})
		if d.chance(0.1) {
			member = d.anyAcct()
		}
		out = append(out, M{"t": "GExec", "member": member, "msgs": run})
	}
	return out
}

func (d *Driver) curSigners() []string {
	p := d.w().App.EnterpriseKeeper.GetParams(d.w().Ctx())
	var out []string
	for _, s := range strings.Split(p.EntSigners, ",") {
		n := d.w().nameOf(s)
		if contains(d.w().Names, n) {
			out = append(out, n)
		}
	}
	if len(out) == 0 {
		out = []string{"A1"}
	}
	return out
}

func (d *Driver) entMsg() M {
	w := d.w()
	ctx := w.Ctx()
	k := w.App.EnterpriseKeeper
	switch d.rint(0, 9) {
	case 0, 1, 2:
		pur := d.anyParty()
		if d.chance(0.75) {
			var wl []string
			for _, n := range d.parties() {
				if k.AddressIsWhitelisted(ctx, w.partyAddr(n)) {
					wl = append(wl, n)
				}
			}
			if len(wl) > 0 {
				pur = d.pick(wl)
			}
		}
		den := "nund"
		if d.chance(0.05) {
			den = "other"
		}
		return M{"t": "Raise", "pur": pur, "amt": int64(d.rint(1, 40)), "denom": den}
	case 3, 4, 5, 6:
		signer := d.anyAcct()
		if d.chance(0.8) {
			signer = d.pick(d.curSigners())
		}
		next, _ := k.GetHighestPurchaseOrderID(ctx)
		id := uint64(d.rint(1, int(next)+1))
		raised := k.GetAllRaisedPurchaseOrders(ctx)
		if len(raised) > 0 && d.chance(0.8) {
			id = raised[d.Rng.Intn(len(raised))]
		}
		dec := "accept"
		if d.chance(0.35) {
			dec = "reject"
		}
		return M{"t": "Decide", "signer": signer, "id": int64(id), "d": dec}
	default:
		signer := d.anyAcct()
		if d.chance(0.8) {
			signer = d.pick(d.curSigners())
		}
		act := "add"
		if d.chance(0.4) {
			act = "remove"
		}
		return M{"t": "Whitelist", "signer": signer, "addr": d.anyParty(), "act": act}
	}
}

func (d *Driver) entParams() M {
	names := d.w().Names
	n := d.rint(1, 3)
	perm := d.Rng.Perm(len(names))
	var ss []interface{}
	for i := 0; i < n; i++ {
		ss = append(ss, names[perm[i]])
	}
	min := d.rint(1, n)
	return M{"signers": ss, "min": int64(min), "limit": int64(d.rint(1, 5)), "denom": "nund"}
}

func (d *Driver) regParams(k string) M {
	def := d.rint(1, 3)
	return M{"feeReg": int64(d.rint(5, 30)), "feeRec": int64(d.rint(1, 4)), "feePur": int64(d.rint(1, 5)), "denom": "nund",
		"def": int64(def), "max": int64(def + d.rint(0, 3))}
}

func (d *Driver) govTx() M {
	w := d.w()
	mod := d.pick([]string{"ent", "wrk", "bcn", "str"})
	if d.Profile == "ent" {
		mod = "ent"
	}
	var p M
	switch mod {
	case "ent":
		p = d.entParams()
	case "wrk", "bcn":
		p = d.regParams(mod)
	case "str":
		vf := [][2]int64{{0, 1}, {1, 100}, {1, 2}, {1, 1}, {1, 10}}[d.Rng.Intn(5)]
		p = M{"feeNum": vf[0], "feeDen": vf[1]}
	}
	pid, _ := w.App.GovKeeper.GetProposalID(w.Ctx())
	inner := []interface{}{M{"t": "UpdParams", "mod": mod, "authority": "gov", "p": p}}
	if d.chance(0.25) {
		// a second message that fails when the proposal executes: the whole proposal is rolled back
		inner = append(inner, M{"t": "Send", "from": "gov", "to": "A1", "amt": int64(5), "denom": "nund"})
	}
	return M{"a": "DeliverTx", "msgs": []interface{}{
		M{"t": "GovProp", "proposer": "V", "msgs": inner},
		M{"t": "Vote", "voter": "V", "id": int64(pid)}}}
}

// registry messages; returns msg and the exact fee it costs
func (d *Driver) regMsg() (M, int64) {
	w := d.w()
	ctx := w.Ctx()
	isW := d.chance(0.5)
	if isW {
		k := w.App.WrkchainKeeper
		p := k.GetParams(ctx)
		next, _ := k.GetHighestWrkChainID(ctx)
		start := w.Gen.Wrk.StartID
		have := next > start
		c := d.rint(0, 9)
		if !have || c == 0 {
			return M{"t": "WReg", "owner": d.anyParty(), "moniker": d.pick([]string{"m1", "m2", "LEN:64", "LEN:65"}), "name": d.pick([]string{"n", "", "LEN:128"}),
				"genesis": d.pick([]string{"g", "LEN:66", ""}), "type": "geth"}, int64(p.FeeRegister)
		}
		id := start + uint64(d.Rng.Intn(int(next-start)))
		if d.chance(0.05) {
			id = next + 3
		}
		wc, _ := k.GetWrkChain(ctx, id)
		owner := w.nameOf(wc.Owner)
		if d.chance(0.15) || !contains(d.parties(), owner) {
			owner = d.anyParty()
		}
		if c <= 6 {
			h := int64(wc.Lastblock) + int64(d.rint(1, 3))
			if d.chance(0.15) {
				h = int64(wc.Lastblock) - int64(d.rint(0, 2))
				if h < 0 {
					h = 0
				}
			}
			return M{"t": "WRec", "owner": owner, "id": int64(id), "h": h, "bh": d.hash(), "ph": d.pick([]string{"", "p"}), "h1": "", "h2": d.pick([]string{"", "LEN:66"}), "h3": ""}, int64(p.FeeRecord)
		}
		n := int64(d.rint(1, 3))
		return M{"t": "WBuy", "owner": owner, "id": int64(id), "n": n}, int64(p.FeePurchaseStorage) * n
	}
	k := w.App.BeaconKeeper
	p := k.GetParams(ctx)
	next, _ := k.GetHighestBeaconID(ctx)
	start := w.Gen.Bcn.StartID
	have := next > start
	c := d.rint(0, 9)
	if !have || c == 0 {
		return M{"t": "BReg", "owner": d.anyParty(), "moniker": d.pick([]string{"b1", "b2", "LEN:64"}), "name": d.pick([]string{"n", "LEN:128", "LEN:129"})}, int64(p.FeeRegister)
	}
	id := start + uint64(d.Rng.Intn(int(next-start)))
	if d.chance(0.05) {
		id = next + 2
	}
	bc, _ := k.GetBeacon(ctx, id)
	owner := w.nameOf(bc.Owner)
	if d.chance(0.15) || !contains(d.parties(), owner) {
		owner = d.anyParty()
	}
	if c <= 6 {
		return M{"t": "BRec", "owner": owner, "id": int64(id), "hash": d.hash(), "subt": int64(d.rint(1, 100000))}, int64(p.FeeRecord)
	}
	n := int64(d.rint(1, 3))
	return M{"t": "BBuy", "owner": owner, "id": int64(id), "n": n}, int64(p.FeePurchaseStorage) * n
}

// bulkBuyTx: one transaction buying storage for SEVERAL registrations of one module at once (each amount within,
// at or beyond what can still be bought), paying the exact total - the shape that exercises per-transaction
// bookkeeping of the ante decorators (sums per registration, limits per registration).
func (d *Driver) bulkBuyTx() M {
	w := d.w()
	ctx := w.Ctx()
	var msgs []interface{}
	total := int64(0)
	owner := d.anyAcct()
	if d.chance(0.5) {
		k := w.App.WrkchainKeeper
		p := k.GetParams(ctx)
		next, _ := k.GetHighestWrkChainID(ctx)
		for id := w.Gen.Wrk.StartID; id < next && len(msgs) < 6; id++ {
			n := int64(d.rint(1, 4))
			msgs = append(msgs, M{"t": "WBuy", "owner": owner, "id": int64(id), "n": n})
			total += int64(p.FeePurchaseStorage) * n
		}
	} else {
		k := w.App.BeaconKeeper
		p := k.GetParams(ctx)
		next, _ := k.GetHighestBeaconID(ctx)
		for id := w.Gen.Bcn.StartID; id < next && len(msgs) < 6; id++ {
			n := int64(d.rint(1, 4))
			msgs = append(msgs, M{"t": "BBuy", "owner": owner, "id": int64(id), "n": n})
			total += int64(p.FeePurchaseStorage) * n
		}
	}
	if len(msgs) < 2 {
		return d.regTx()
	}
	d.Rng.Shuffle(len(msgs), func(i, j int) { msgs[i], msgs[j] = msgs[j], msgs[i] })
	return M{"a": "DeliverTx", "msgs": d.groupWrap(msgs), "fee": M{"nund": total}}
}

func (d *Driver) regTx() M {
	if d.Profile != "bulk" && d.chance(0.06) {
		if ev := d.bulkBuyTx(); ev != nil {
			return ev
		}
	}
	nm := 1
	if d.chance(0.2) {
		nm = d.rint(2, 3)
	}
	var msgs []interface{}
	total := int64(0)
	var owner string
	for i := 0; i < nm; i++ {
		m, f := d.regMsg()
		if i == 0 {
			owner = mStr(m, "owner")
		} else if d.chance(0.8) {
			m["owner"] = owner // same signer keeps it a single-signer tx most of the time
		}
		msgs = append(msgs, m)
		total += f
	}
	fee := M{"nund": total}
	switch d.rint(0, 19) {
	case 0:
		fee = M{"nund": total + 1}
	case 1:
		if total > 1 {
			fee = M{"nund": total - 1}
		}
	case 2:
		fee = M{}
	case 3:
		fee = M{"nund": total, "other": int64(1)}
	}
	ev := M{"a": "DeliverTx", "msgs": d.groupWrap(msgs), "fee": fee}
	if d.chance(0.04) {
		ev["badSig"] = true
	}
	if d.chance(0.03) {
		ev["badSeq"] = true
	}
	return ev
}

func (d *Driver) streamMsg() M {
	w := d.w()
	ctx := w.Ctx()
	type pair struct{ r, s string }
	var live []pair
	for _, r := range d.parties() {
		for _, s := range d.parties() {
			if r != s && w.App.StreamKeeper.IsStream(ctx, w.partyAddr(r), w.partyAddr(s)) {
				live = append(live, pair{r, s})
			}
		}
	}
	c := d.rint(0, 9)
	if len(live) == 0 || c <= 1 {
		s, r := d.anyParty(), d.anyParty()
		if d.chance(0.03) {
			r = "stream"
		}
		rate := int64(d.rint(1, 4))
		dep := rate * int64(d.rint(55, 300))
		return M{"t": "SCreate", "sender": s, "receiver": r, "dep": dep, "denom": d.pick([]string{"nund", "nund", "other"}), "rate": rate}
	}
	p := live[d.Rng.Intn(len(live))]
	if d.chance(0.1) {
		p.r, p.s = p.s, p.r // wrong direction / stranger
	}
	st, _ := w.App.StreamKeeper.GetStream(ctx, w.partyAddr(p.r), w.partyAddr(p.s))
	den := st.Deposit.Denom
	if den == "" || d.chance(0.05) {
		den = d.pick([]string{"nund", "other"})
	}
	switch {
	case c <= 4:
		return M{"t": "SClaim", "sender": p.s, "receiver": p.r}
	case c <= 6:
		return M{"t": "STopUp", "sender": p.s, "receiver": p.r, "dep": int64(d.rint(1, 400)), "denom": den}
	case c <= 8:
		return M{"t": "SRate", "sender": p.s, "receiver": p.r, "rate": int64(d.rint(1, 5))}
	}
	return M{"t": "SCancel", "sender": p.s, "receiver": p.r}
}

func (d *Driver) sendMsg() M {
	to := d.anyAcct()
	if d.chance(0.4) {
		to = d.pick([]string{"ent", "stream", "feecol", "grp", "grp"})
	}
	return M{"t": "Send", "from": d.anyParty(), "to": to, "amt": int64(d.rint(1, 50)), "denom": d.pick([]string{"nund", "other"})}
}

func (d *Driver) wrapTx(msgs ...M) M {
	var ms []interface{}
	for _, m := range msgs {
		ms = append(ms, m)
	}
	// now and then every address of a message in the all upper-case spelling bech32 also admits (the same accounts)
	for _, x := range ms {
		if m := x.(M); d.chance(0.04) && mStr(m, "t") != "GExec" && mStr(m, "t") != "Exec" && mStr(m, "t") != "GovProp" {
			m["enc"] = "upper"
		}
	}
	ms = d.groupWrap(ms)
	ev := M{"a": "DeliverTx", "msgs": ms}
	if d.chance(0.03) {
		ev["badSig"] = true
	}
	return ev
}

func (d *Driver) nextTx() M {
	type gen struct {
		w float64
		f func() M
	}
	var gens []gen
	ent := func() M {
		m := d.entMsg()
		if d.chance(0.1) && mStr(m, SignerField(m)) != "grp" {
			// self-exec wrapper
			return d.wrapTx(M{"t": "Exec", "grantee": mStr(m, SignerField(m)), "msgs": []interface{}{m}})
		}
		return d.wrapTx(m)
	}
	str := func() M {
		m := d.streamMsg()
		if d.chance(0.08) && mStr(m, SignerField(m)) != "grp" {
			return d.wrapTx(M{"t": "Exec", "grantee": mStr(m, SignerField(m)), "msgs": []interface{}{m}})
		}
		if d.chance(0.1) {
			m2 := d.streamMsg()
			if mStr(m2, SignerField(m2)) == mStr(m, SignerField(m)) {
				return d.wrapTx(m, m2)
			}
		}
		return d.wrapTx(m)
	}
	send := func() M { return d.wrapTx(d.sendMsg()) }
	switch d.Profile {
	case "ent":
		gens = []gen{{6, ent}, {1, d.govTx}, {2, d.regTx}, {0.5, send}}
	case "reg":
		gens = []gen{{1, ent}, {0.6, d.govTx}, {7, d.regTx}, {0.3, send}}
	case "bulk":
		gens = []gen{{4, d.regTx}, {4, d.bulkBuyTx}, {0.4, d.govTx}}
	case "str":
		gens = []gen{{7, str}, {0.6, d.govTx}, {0.5, send}}
	default:
		gens = []gen{{3, ent}, {1, d.govTx}, {3, d.regTx}, {3, str}, {1, send}}
	}
	tot := 0.0
	for _, g := range gens {
		tot += g.w
	}
	x := d.Rng.Float64() * tot
	for _, g := range gens {
		if x < g.w {
			return g.f()
		}
		x -= g.w
	}
	return gens[0].f()
}

// SignerField names the field holding the entitled signer of a message.
func SignerField(m M) string {
	switch mStr(m, "t") {
	case "Raise":
		return "pur"
	case "GExec":
		return "member"
	case "Decide", "Whitelist":
		return "signer"
	case "WReg", "WRec", "WBuy", "BReg", "BRec", "BBuy":
		return "owner"
	case "SCreate", "STopUp", "SRate", "SCancel":
		return "sender"
	case "SClaim":
		return "receiver"
	case "Send":
		return "from"
	case "Grant", "Revoke", "FGrant", "FRevoke":
		return "granter"
	}
	return "signer"
}

func (d *Driver) dt() int64 {
	switch d.Profile {
	case "str":
		return []int64{0, 400, 1000, 1000, 5000, 30000, 60000, 200000, 1700}[d.Rng.Intn(9)]
	}
	return []int64{0, 1000, 1000, 2000, 3000, 500, 6000}[d.Rng.Intn(7)]
}

func cmdRandom(profile string, seed int64, steps, runs int, out string) error {
	// "exp<profile>": the same driver, with an export / re-import at random block boundaries (C15)
	expProb, lqProb := 0.0, 0.0
	if strings.HasPrefix(profile, "exp") {
		profile = strings.TrimPrefix(profile, "exp")
		expProb = 0.15
	}
	// "lq<profile>": list queries (C20) at random block boundaries and at the end of each run
	if strings.HasPrefix(profile, "lq") {
		profile = strings.TrimPrefix(profile, "lq")
		lqProb = 0.12
	}
	f, err := os.Create(out)
	if err != nil {
		return err
	}
	defer f.Close()
	bw := bufio.NewWriterSize(f, 1<<20)
	defer bw.Flush()
	r := NewRunner(bw)
	for run := 0; run < runs; run++ {
		rng := rand.New(rand.NewSource(seed*1000003 + int64(run)))
		d := &Driver{R: r, Rng: rng, Profile: profile}
		g := randGen(rng, profile)
		if lqProb > 0 {
			// list queries: ids that are not dense from 1 (a paginator must not compute keys from offsets), and that
			// cross a byte boundary of their big-endian key in every other run
			g.Ent.StartID = 4
			if run%2 == 0 {
				g.Wrk.StartID, g.Bcn.StartID = 255, 255
			}
		}
		if err := r.Step(M{"a": "InitChain", "g": genToM(g)}); err != nil {
			return err
		}
		if lqProb > 0 {
			// list queries: the group policy account (32-byte address) is sender and receiver of a stream, owner of a
			// WRKChain and a BEACON and purchaser of an order from the first block on
			gx := func(member string, m M) M {
				return M{"a": "DeliverTx", "msgs": []interface{}{M{"t": "GExec", "member": member, "msgs": []interface{}{m}}}}
			}
			tx := func(m M) M { return M{"a": "DeliverTx", "msgs": []interface{}{m}} }
			pre := []M{{"a": "BeginBlock", "dt": int64(1000)},
				tx(M{"t": "Send", "from": "A1", "to": "grp", "amt": int64(400), "denom": "nund"}),
				tx(M{"t": "Whitelist", "signer": "A1", "addr": "grp", "act": "add"}),
				gx("A1", M{"t": "SCreate", "sender": "grp", "receiver": "A3", "dep": int64(120), "denom": "nund", "rate": int64(1)}),
				tx(M{"t": "SCreate", "sender": "A1", "receiver": "grp", "dep": int64(120), "denom": "nund", "rate": int64(1)}),
				gx("A2", M{"t": "WReg", "owner": "grp", "moniker": "mg", "name": "n", "genesis": "g", "type": "geth"}),
				gx("A1", M{"t": "BReg", "owner": "grp", "moniker": "bg", "name": "n"}),
				gx("A1", M{"t": "Raise", "pur": "grp", "amt": int64(5), "denom": "nund"}),
				{"a": "EndBlock"}, {"a": "Commit"}}
			for _, ev := range pre {
				if err := r.Step(ev); err != nil {
					return err
				}
			}
		}
		n := 0
		for n < steps && !r.W.Halted {
			if err := r.Step(M{"a": "BeginBlock", "dt": d.dt()}); err != nil {
				return err
			}
			n++
			if r.W.Halted {
				break
			}
			ntx := d.rint(0, 4)
			for i := 0; i < ntx; i++ {
				ev := d.nextTx()
				if err := r.Step(normalize(ev)); err != nil {
					return fmt.Errorf("run %d: %w", run, err)
				}
				n++
			}
			if err := r.Step(M{"a": "EndBlock"}); err != nil {
				return err
			}
			if err := r.Step(M{"a": "Commit"}); err != nil {
				return err
			}
			n += 2
			if lqProb > 0 && (d.chance(lqProb) || n >= steps) {
				if err := r.Step(M{"a": "ListQueries", "full": n >= steps}); err != nil {
					return err
				}
				n++
			}
			if expProb > 0 && d.chance(expProb) {
				if err := r.Step(M{"a": "ExportImport"}); err != nil {
					return err
				}
				n++
			}
		}
	}
	if r.W != nil {
		r.W.Close()
	}
	return nil
}

// normalize round-trips a generated event through JSON so that it has exactly the shape a
// schedule read from a file has (json.Number, []interface{}).
func normalize(ev M) M {
	return roundTrip(ev)
}
