package main

// ListQueries (C20): every list query of the four modules with every filter value present in the
// state (+ one absent value), page limits 1..n+1, key- and offset-based continuation. The paging
// loop is executed here; pages, continuation keys and returned items are recorded so that TLC can
// check them against Paginate.tla given the full item list of the same state (post).

import (
	"bytes"
	"encoding/binary"
	"fmt"
	"sort"
	"strings"

	sdk "github.com/cosmos/cosmos-sdk/types"
	"github.com/cosmos/cosmos-sdk/types/query"

	beacontypes "github.com/unification-com/mainchain/x/beacon/types"
	enttypes "github.com/unification-com/mainchain/x/enterprise/types"
	streamtypes "github.com/unification-com/mainchain/x/stream/types"
	wrkchaintypes "github.com/unification-com/mainchain/x/wrkchain/types"
)

type pageFn func(pr *query.PageRequest) (items []interface{}, keys []interface{}, next []byte, total uint64, err error)

// pagingLoop follows NextKey (key mode) or advances the offset (offset mode) until exhausted.
func pagingLoop(fn pageFn, mode string, limit int, nextName func([]byte) interface{}, maxIter int) J {
	pages := []interface{}{}
	items := []interface{}{}
	nexts := []interface{}{}
	var next []byte
	off := uint64(0)
	okAll := true
	total := int64(-1)
	for it := 0; it < maxIter; it++ {
		pr := &query.PageRequest{Limit: uint64(limit)}
		if mode == "key" {
			pr.Key = next
		} else {
			pr.Offset = off
			pr.CountTotal = it == 0
		}
		// a panicking list query is an observation (reported as a failed query), not a harness error
		its, keys, nk, tot, err := func() (a []interface{}, b []interface{}, c []byte, d uint64, e error) {
			defer func() {
				if r := recover(); r != nil {
					e = fmt.Errorf("list query panicked: %v", r)
				}
			}()
			return fn(pr)
		}()
		if err != nil {
			okAll = false
			break
		}
		if mode == "off" && it == 0 {
			total = int64(tot)
		}
		if keys == nil {
			keys = []interface{}{}
		}
		pages = append(pages, keys)
		items = append(items, its...)
		if len(nk) == 0 {
			nexts = append(nexts, nextName(nil))
			break
		}
		nexts = append(nexts, nextName(nk))
		if mode == "key" {
			next = nk
		} else {
			off += uint64(limit)
		}
	}
	return J{"ok": okAll, "pages": pages, "items": items, "next": nexts, "total": total}
}

func idOfKey(k []byte) interface{} {
	if len(k) == 0 {
		return int64(0)
	}
	if len(k) >= 8 {
		return absU64(binary.BigEndian.Uint64(k[len(k)-8:]))
	}
	return int64(-1)
}

func limitsFor(n int, full bool) []int {
	if full || n <= 3 {
		out := []int{}
		for l := 1; l <= n+1; l++ {
			out = append(out, l)
		}
		return out
	}
	set := map[int]bool{1: true, 2: true, 3: true, n - 1: true, n: true, n + 1: true}
	out := []int{}
	for l := range set {
		if l >= 1 {
			out = append(out, l)
		}
	}
	sort.Ints(out)
	return out
}

func (w *World) poJ(o enttypes.EnterpriseUndPurchaseOrder) J {
	decs := []interface{}{}
	for _, d := range o.Decisions {
		decs = append(decs, J{"s": w.nameOf(d.Signer), "d": statusStr(d.Decision), "t": secOf(d.DecisionTime)})
	}
	ct := int64(-1)
	if o.CompletionTime != 0 {
		ct = secOf(o.CompletionTime)
	}
	return J{"id": absU64(o.Id), "pur": w.nameOf(o.Purchaser), "amt": absInt(o.Amount.Amount), "den": o.Amount.Denom,
		"st": statusStr(o.Status), "rt": secOf(o.RaiseTime), "ct": ct, "dec": decs}
}

// ListQueries runs all list queries; full = every limit 1..n+1.
func (w *World) ListQueries(full bool) []interface{} {
	ctx := w.Ctx()
	g := sdk.WrapSDKContext(ctx)
	out := []interface{}{}
	add := func(q string, filter J, mode string, limit int, r J) {
		r["q"], r["f"], r["mode"], r["limit"] = q, filter, mode, int64(limit)
		out = append(out, r)
	}
	modes := []string{"key", "off"}

	// ---- purchase orders: status x purchaser filters
	ek := w.App.EnterpriseKeeper
	nPo := len(ek.GetAllPurchaseOrders(ctx))
	statuses := map[string]enttypes.PurchaseOrderStatus{"": enttypes.StatusNil, "raised": enttypes.StatusRaised, "accepted": enttypes.StatusAccepted,
		"rejected": enttypes.StatusRejected, "completed": enttypes.StatusCompleted}
	purs := append(append([]string{""}, w.Names...), "grp")
	for _, st := range sortedKeys(statuses) {
		for _, pu := range purs {
			if st != "" && pu != "" && !(pu == w.Names[0] || pu == w.Names[len(w.Names)-1] || pu == "A3" || pu == "grp") {
				continue // pairs: a few purchasers only
			}
			paddr := ""
			if pu != "" {
				paddr = w.partyAddr(pu).String()
			}
			for _, mode := range modes {
				for _, lim := range limitsFor(nPo, full) {
					fn := func(pr *query.PageRequest) ([]interface{}, []interface{}, []byte, uint64, error) {
						r, err := ek.EnterpriseUndPurchaseOrders(g, &enttypes.QueryEnterpriseUndPurchaseOrdersRequest{Pagination: pr, Purchaser: paddr, Status: statuses[st]})
						if err != nil {
							return nil, nil, nil, 0, err
						}
						var its, keys []interface{}
						for _, o := range r.PurchaseOrders {
							its = append(its, w.poJ(o))
							keys = append(keys, absU64(o.Id))
						}
						return its, keys, r.Pagination.NextKey, r.Pagination.Total, nil
					}
					add("po", J{"st": st, "pur": pu}, mode, lim, pagingLoop(fn, mode, lim, idOfKey, nPo+3))
				}
			}
		}
	}
	// ---- whitelist (not paginated)
	if wl, err := ek.Whitelist(g, &enttypes.QueryWhitelistRequest{}); err == nil {
		names := []interface{}{}
		for _, a := range wl.Addresses {
			names = append(names, w.nameOf(a))
		}
		out = append(out, J{"q": "wl", "f": J{}, "mode": "all", "limit": int64(0), "ok": true, "pages": []interface{}{names}, "items": []interface{}{}, "next": []interface{}{int64(0)}, "total": int64(-1)})
	}

	// ---- wrkchains / beacons: owner x moniker filters
	wk := w.App.WrkchainKeeper
	wcs := wk.GetAllWrkChains(ctx)
	monW := map[string]bool{"": true, "absent-moniker": true}
	for _, c := range wcs {
		monW[c.Moniker] = true
	}
	owners := append(append([]string{""}, w.Names...), "grp")
	for _, mo := range sortedKeys(monW) {
		for _, ow := range owners {
			if mo != "" && ow != "" && ow != "A1" && ow != "A3" && ow != "grp" {
				continue
			}
			oaddr := ""
			if ow != "" {
				oaddr = w.partyAddr(ow).String()
			}
			for _, mode := range modes {
				for _, lim := range limitsFor(len(wcs), full) {
					fn := func(pr *query.PageRequest) ([]interface{}, []interface{}, []byte, uint64, error) {
						r, err := wk.WrkChainsFiltered(g, &wrkchaintypes.QueryWrkChainsFilteredRequest{Pagination: pr, Owner: oaddr, Moniker: mo})
						if err != nil {
							return nil, nil, nil, 0, err
						}
						var its, keys []interface{}
						for _, c := range r.Wrkchains {
							its = append(its, J{"id": absU64(c.WrkchainId), "owner": w.nameOf(c.Owner), "moniker": c.Moniker, "name": c.Name, "genesis": c.Genesis,
								"type": c.Type, "reg": secOf(c.RegTime), "last": absU64(c.Lastblock), "num": absU64(c.NumBlocks), "low": absU64(c.LowestHeight)})
							keys = append(keys, absU64(c.WrkchainId))
						}
						return its, keys, r.Pagination.NextKey, r.Pagination.Total, nil
					}
					add("wrk", J{"moniker": mo, "owner": ow}, mode, lim, pagingLoop(fn, mode, lim, idOfKey, len(wcs)+3))
				}
			}
		}
	}
	bk := w.App.BeaconKeeper
	bcs := bk.GetAllBeacons(ctx)
	monB := map[string]bool{"": true, "absent-moniker": true}
	for _, c := range bcs {
		monB[c.Moniker] = true
	}
	for _, mo := range sortedKeys(monB) {
		for _, ow := range owners {
			if mo != "" && ow != "" && ow != "A1" && ow != "A3" && ow != "grp" {
				continue
			}
			oaddr := ""
			if ow != "" {
				oaddr = w.partyAddr(ow).String()
			}
			for _, mode := range modes {
				for _, lim := range limitsFor(len(bcs), full) {
					fn := func(pr *query.PageRequest) ([]interface{}, []interface{}, []byte, uint64, error) {
						r, err := bk.BeaconsFiltered(g, &beacontypes.QueryBeaconsFilteredRequest{Pagination: pr, Owner: oaddr, Moniker: mo})
						if err != nil {
							return nil, nil, nil, 0, err
						}
						var its, keys []interface{}
						for _, c := range r.Beacons {
							its = append(its, J{"id": absU64(c.BeaconId), "owner": w.nameOf(c.Owner), "moniker": c.Moniker, "name": c.Name,
								"reg": secOf(c.RegTime), "last": absU64(c.LastTimestampId), "num": absU64(c.NumInState), "low": absU64(c.FirstIdInState)})
							keys = append(keys, absU64(c.BeaconId))
						}
						return its, keys, r.Pagination.NextKey, r.Pagination.Total, nil
					}
					add("bcn", J{"moniker": mo, "owner": ow}, mode, lim, pagingLoop(fn, mode, lim, idOfKey, len(bcs)+3))
				}
			}
		}
	}

	// ---- streams: all / by sender / by receiver
	sk := w.App.StreamKeeper
	nStr := 0
	sk.IterateAllStreams(ctx, func(_, _ sdk.AccAddress, _ streamtypes.Stream) bool { nStr++; return false })
	strItem := func(s *streamtypes.StreamResult) (J, string) {
		key := w.nameOf(s.Receiver) + "/" + w.nameOf(s.Sender)
		st := s.Stream
		return J{"k": key, "dep": absInt(st.Deposit.Amount), "den": st.Deposit.Denom, "rate": absI64(st.FlowRate),
			"last": msOf(st.LastOutflowTime), "dzt": msOf(st.DepositZeroTime), "canc": st.Cancellable}, key
	}
	// continuation keys of stream queries are opaque address bytes: only their presence is recorded
	present := func(k []byte) interface{} {
		if len(k) == 0 {
			return int64(0)
		}
		return int64(1)
	}
	for _, mode := range modes {
		for _, lim := range limitsFor(nStr, full) {
			fn := func(pr *query.PageRequest) ([]interface{}, []interface{}, []byte, uint64, error) {
				r, err := sk.Streams(g, &streamtypes.QueryStreamsRequest{Pagination: pr})
				if err != nil {
					return nil, nil, nil, 0, err
				}
				var its, keys []interface{}
				for _, s := range r.Streams {
					it, k := strItem(s)
					its = append(its, it)
					keys = append(keys, k)
				}
				return its, keys, r.Pagination.NextKey, r.Pagination.Total, nil
			}
			add("str", J{"sender": "", "receiver": ""}, mode, lim, pagingLoop(fn, mode, lim, present, nStr+3))
		}
	}
	for _, who := range append(append([]string{}, w.Names...), "grp") {
		addr := w.partyAddr(who).String()
		for _, mode := range modes {
			for _, lim := range limitsFor(nStr, full) {
				fnS := func(pr *query.PageRequest) ([]interface{}, []interface{}, []byte, uint64, error) {
					r, err := sk.AllStreamsForSender(g, &streamtypes.QueryAllStreamsForSenderRequest{SenderAddr: addr, Pagination: pr})
					if err != nil {
						return nil, nil, nil, 0, err
					}
					var its, keys []interface{}
					for _, s := range r.Streams {
						it, k := strItem(s)
						its = append(its, it)
						keys = append(keys, k)
					}
					return its, keys, r.Pagination.NextKey, r.Pagination.Total, nil
				}
				add("str", J{"sender": who, "receiver": ""}, mode, lim, pagingLoop(fnS, mode, lim, present, nStr+3))
				fnR := func(pr *query.PageRequest) ([]interface{}, []interface{}, []byte, uint64, error) {
					r, err := sk.AllStreamsForReceiver(g, &streamtypes.QueryAllStreamsForReceiverRequest{ReceiverAddr: addr, Pagination: pr})
					if err != nil {
						return nil, nil, nil, 0, err
					}
					var its, keys []interface{}
					for _, s := range r.Streams {
						it, k := strItem(s)
						its = append(its, it)
						keys = append(keys, k)
					}
					return its, keys, r.Pagination.NextKey, r.Pagination.Total, nil
				}
				add("str", J{"sender": "", "receiver": who}, mode, lim, pagingLoop(fnR, mode, lim, present, nStr+3))
			}
		}
	}
	return out
}

// streamOrder computes, independently of the repository's key builders, the store key order of the
// live streams: 0x11 | len(receiver) | receiver | len(sender) | sender, compared bytewise.
// addrOfName resolves a projection name (scenario account or module account) to its address.
func (w *World) addrOfName(n string) (sdk.AccAddress, bool) {
	if a, ok := w.Accts[n]; ok {
		return a.Addr, true
	}
	switch n {
	case "gov":
		return w.GovAddr, true
	case "grp":
		return w.GrpAddr, true
	case "feecol":
		return w.FeeAddr, true
	case "ent":
		return w.EntAddr, true
	case "stream":
		return w.StreamAddr, true
	case "distr":
		return w.DistrAddr, true
	}
	return nil, false
}

func (w *World) streamOrder(keys []string) []interface{} {
	type kv struct {
		name string
		key  []byte
	}
	var xs []kv
	for _, k := range keys {
		parts := strings.SplitN(k, "/", 2)
		if len(parts) != 2 {
			continue
		}
		ra, okr := w.addrOfName(parts[0])
		sa, oks := w.addrOfName(parts[1])
		if !okr || !oks {
			continue
		}
		b := append([]byte{byte(len(ra))}, ra...)
		b = append(b, byte(len(sa)))
		b = append(b, sa...)
		xs = append(xs, kv{k, b})
	}
	sort.Slice(xs, func(i, j int) bool { return bytes.Compare(xs[i].key, xs[j].key) < 0 })
	out := []interface{}{}
	for _, x := range xs {
		out = append(out, x.name)
	}
	return out
}
